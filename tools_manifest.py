#!/usr/bin/env python3
"""Regenerates /verif/MANIFEST.json from the table below (kept in one place so it stays valid)."""
import json, subprocess
REPO_HOOK_COMMITS = ["2fc4dbf"]
NA = {
 "C01": "soundness of value claims against RV32IM machine semantics for all programs and machine states: a pure function of the program text checked against an external semantics; nothing the simulator owns (schedule, file faults, pass histories, process/mode) can change it once C12 holds",
 "C02": "liveness equations / least solution / dynamic uses: pure function of the program text; same reason as C01",
 "C04": "precision over a class of conforming inputs: for a fixed input nothing the simulator owns changes the answer once C10 holds; generating inputs is not simulation",
 "C05": "recall over injection sites in the input text: pure input property",
 "C07": "relation between input text and parser output (no line silently dropped): pure input property; the faults that produce such text are simulated under C06 only for crash/hang freedom",
 "C08": "finite table of pure functions (decoding, pseudo-expansion, constant folding): enumeration, not simulation",
 "C09": "location arithmetic is a pure function of the input layout",
 "C13": "metamorphic relation between two input texts (re-spelling): no schedule, fault, history or configuration in it",
 "C14": "metamorphic relation between two input texts (renaming); its hash-order aspect is exactly C10",
 "C16": "every analysis failure explained at a real place: pure function of the input program; its only schedule-sensitive part (which undefined label is named) is covered by C10",
 "C17": "numeric literals: pure function of the literal",
 "C19": "serde round trip of a value: no I/O fault or schedule changes whether two values share an encoding",
}
CHECKS = {
 "C03": dict(level="exploration", design="§5.1",
   text="On the finished graph of every (generated program, entropy seed) pair: successor and predecessor relations are exact inverses with no entry twice (by pointer identity, never by hash lookup, because merged returns change their key while sitting in other nodes' sets); every edge is a fall-through, a jump to the label written in the instruction, or the merge of a return into its function's exit, and none leaves an exit ecall; and against the harness's own reference edge model (an independent reader of the generator's dialect) every transfer an execution can make is an edge and no reachable instruction is reported unreachable. Exploration over programs x schedules.",
   note="Clauses I3/I4 apply only to programs in the reference model's class (every path ends in ret or an exit ecall, all lines recognised by the harness's reader, ecall numbers set directly before the ecall or flowing in one of the shapes the generator writes: copied from a returned value, spilled and reloaded, a local overwritten through a copy of sp or by a callee) and trust that reader; I1/I2 trust nothing.",
   technique="deterministic simulation: schedule search with structural invariants and a reference edge model"),
 "C11": dict(level="exploration", design="§5.4",
   text="On every schedule's finished graph separately: function entries are exactly the labels named by calls (read off the source text by the harness's own reader) or installed as interrupt handler; cfg.functions() has exactly those labels, all labels of one entry mapping to one function; each function's node list equals what an independent traversal reaches from its entry and per-node owner lists agree; each function has one exit, a return it reaches, every other return of it rewritten to lead to that exit; node-in-many-functions is reported iff two functions share a node. Workload rich in several labels per entry, interleaved bodies, forward and backward shared tails, fall-through entry, recursion, callers in dead code, 1-3 returns.",
   note="Programs the analyzer rejects (function without return, CFG errors) are outside F1-F4 (C16's subject) and counted. The former open finding KF-C11-1 (a function reaching the exits of two other functions kept two returns) was repaired in /repo (ebf26fb); its reverse patch is a seeded case.",
   technique="deterministic simulation: schedule search with an independent traversal as oracle"),
 "C12": dict(level="exploration", design="§5.5",
   text="Histories of 1-8 extra runs of AvailableValuePass / EcallTerminationPass / LivenessPass / run_diagnostics applied to the finished graph: after every step the snapshot (edges by identity, seven fact kinds per node, functions) and the lint items equal those right after the pipeline; a second analysis of the same parsed nodes on one thread and the analyses under further entropy seeds give equal snapshots; sweeps per pass run (from the tick hook) stay within 4*nodes+16 and a hard cap turns oscillation into a reported non-convergence; the facts satisfy the analyses' own equations on the finished graph (what a node assumes on entry is left by every predecessor, live_out is the union of the successors' live_in); and two fixed scaling scenarios (a program family at size m and 2m each) require the sweeps per node not to grow with the program.",
   note="Trusted: the tick hook's sweep counts; the snapshot's textual rendering of facts (sorted). One open known finding (KF-C12-2), matched by class and family.",
   technique="deterministic simulation: operation histories on a stateful object with snapshot equality"),
 "C06": dict(level="fault_enumeration", design="§5.2",
   text="Crash- and hang-freedom under injected faults: generated worlds take content faults (torn, lost, replayed and interleaved writes, bit flips, byte substitutions, CRLF/CR, NUL, BOM, invalid UTF-8, a size multiplier), include-graph shapes (self-include, cycles, missing file, directory / dangling symlink / symlink loop in place of a file), reader faults (five error kinds x import index, enumerated from the run index, three reader personalities) in process, and system-call faults (failing n-th open/read/realpath, short reads, EINTR, TOCTOU redirect of a re-open; enumerated from the run index) and environment faults (standard output on a full disk or a closed pipe, the base file under a name that is not UTF-8, a named pipe fed once in place of the base file) through the real rva in nine output modes and both build profiles. Oracle: no panic (overflow checks and debug assertions on), no signal/abort/non-zero exit (status 1 without a panic is accepted only when standard output was made to fail), no blocking (no-progress watchdog), import budget, tick bounds on the parse loop and on the sweeps of both analyses, CPU and address-space rlimits on every child, JSON mode prints JSON.",
   note="The pure-input part of the property (all byte strings, grammar-level mutations) is only sampled through content faults; no grammar coverage is claimed. The CPU limit is far above a normal run (10 s; 120 s for multiplied inputs), so it fires on non-termination or blow-up only.",
   technique="deterministic simulation: content, reader and system-call fault injection with crash/hang oracle"),
 "C15": dict(level="fault_enumeration", design="§5.6",
   text="Refinement against the reference model 'textual inclusion, then the same analyzer': generated programs are cut at line boundaries into include trees (depth, sub-directories, several includes, missing file, self-include, two-cycle, file included twice) and linted through the in-memory FileReader under three reader personalities and a reader fault plan (five error kinds x import index), through the editor integration's real LSPFileReader (compiled in by path), and through the real CLI reader under file-system faults (failing n-th open, short reads, EINTR) and shapes (missing file, directory / dangling symlink / invalid UTF-8 in place of a file, an included file behind a directory symlink whose own includes climb out with ..); the diagnostics must equal those of the pasted single file mapped back through the line map, every failed include must yield exactly one error on its directive, everything else must still be analysed, and the run must end within the import budget; in a tail variant (one run in sixteen) included files end inside a line and directives are followed by further tokens on their own line, compared against a character-level paste by severity, title and description. Fault enumeration over kind x instant for the reader faults, exploration for the program/cut space.",
   note="Trusted: the cutter's line map (paste(cut(p)) = p by construction), the harness's model of which include fails (validated against the reader's import log on every run; a mismatch is counted, never reported). For a file that ends, without a newline, in the middle of a statement only the position of that statement's items is exempt (line accounting, C07/C09); the items themselves must agree.",
   technique="deterministic simulation: reader/file-system fault injection with refinement against a paste model"),
 "C18": dict(level="exploration", design="§5.7",
   text="All 16 combinations of --json/--compact/--no-color/--all-files of the real rva process run on each generated world under one shared entropy seed (so channel differences cannot be schedule differences), plus the library call RVParser::run in process; parsers for the three formats recover the items and compare them per file selection (severity, title, file, line, columns; --json alone must list exactly the base file's items of --json --all-files), check the other-files counter, JSON shape, ordering within a file, severity-per-kind, colour stripping, and for every pretty item that the excerpt is the referenced line and the caret run sits under the reported columns; for a third of the worlds the pretty modes are run again with every open after the analysis' own opens redirected to other text (the file rewritten before the output): the output must not change.",
   note="Trusted: the harness's parsers of the compact and pretty formats (a line they cannot parse is itself reported as malformed output); path normalisation ('d/../x.s' = 'x.s').",
   technique="deterministic simulation: same-schedule cross-channel comparison of real process runs"),
 "C10": dict(level="exploration", design="§5.3",
   text="Seeded search over hash/UUID schedules: each generated world (program cut into an include tree) is linted under K entropy seeds in process (library entry point and the CLI's pipeline) and, for a share of runs, by the real rva process in json/compact/pretty/yaml/debug modes with and without --all-files under several VERIF_ENTROPY_SEED values; the diagnostic sequences must be identical and free of duplicates. Exploration is the right level: the schedule space is the product of SipHash keys and UUID draws and can only be sampled; reach is measured by order signatures.",
   note="Trusted: the entropy seam (self-tested each invocation), the normalisation of diagnostics (UUIDs replaced by file names). A clean batch is evidence, not proof.",
   technique="deterministic simulation: seeded hash/UUID schedule search, in process and whole process"),
}
def main():
    checks = []
    for pid, c in CHECKS.items():
        checks.append({
            "property_id": pid,
            "quick_cmd": f"./check {pid} --tier quick",
            "thorough_cmd": f"./check {pid} --tier thorough",
            "evidence_file": f"/verif/evidence/{pid}.json",
            "replay_cmd_template": f"./check {pid} --replay {{path}}",
            "engine": "simharness",
            "level_claimed": {"category": c["level"], "text": c["text"], "design_ref": c["design"]},
            "level_note": c["note"],
            "technique": c["technique"],
        })
    na = [{"property_id": k, "reason": v} for k, v in NA.items()]
    for pid in ["C03","C06","C11","C12","C15","C18"]:
        if pid not in CHECKS:
            na.append({"property_id": pid, "reason": "designed as a simulation target (DESIGN.md §5) but its check is not built yet in this revision; not claimed until it is"})
    na.sort(key=lambda x: x["property_id"])
    m = {
      "version": 1,
      "setup_cmd": "cd /verif/sim && python3 simcli/gen.py && CARGO_NET_OFFLINE=true cargo build --offline && CARGO_NET_OFFLINE=true cargo build --offline --release -p riscv_analysis_cli",
      "hooks": {
        "guard": "--cfg riscv_analysis_verif",
        "enable": "rustflags in /verif/sim/.cargo/config.toml; everything the harness builds from /repo has the guard on, /repo's own cargo build/test has it off",
        "baseline_off_cmd": "cd /repo && cargo test --workspace --no-fail-fast --offline",
        "source_commits": REPO_HOOK_COMMITS,
        "add_only": True,
      },
      "engines": [{
        "name": "simharness",
        "path": "/verif/sim",
        "serves_properties": sorted(CHECKS.keys()),
        "kind_free_text": "deterministic simulator: seeded entropy seam (getrandom symbol -> std RandomState keys + Uuid::new_v4), in-memory FileReader with fault plans, LD_PRELOAD libc file seam for the real rva process, tick hook as logical time; explicit-scenario replay and minimisation",
      }],
      "checks": checks,
      "not_applicable": na,
      "notes": "Technique family: deterministic simulation with fault injection. See DESIGN.md. Known findings / fixed defects: /verif/known_findings.json (one open finding, KF-C12-2: sweeps grow with the square of the program in one purpose-built family; repairs listed under 'fixed', the later ones each with its reverse patch under /verif/seeded/revert-<commit>/). Determinism proof: ./check determinism <ID> <N>. Seeded changes and what catches them: /verif/seeded/RESULTS.md.",
    }
    json.dump(m, open("/verif/MANIFEST.json","w"), indent=1)
    print("MANIFEST.json written:", [c["property_id"] for c in checks])
main()
