fn main() {
    // Export the harness's own `getrandom` so that std's weak lookup (dlsym) finds it too.
    println!("cargo:rustc-link-arg-bins=-Wl,--export-dynamic-symbol=getrandom");
    println!("cargo:rerun-if-changed=build.rs");
}
