//! `SimReader`: the in-process file seam (DESIGN.md §2.3). A legal `FileReader` over an in-memory
//! world, with a personality, a fault plan, a call history and an import budget.

use crate::world::{dir_of, resolve, World};
use riscv_analysis::reader::{FileReader, FileReaderError};
use serde::{Deserialize, Serialize};
use uuid::Uuid;

#[derive(Clone, Copy, Debug, Serialize, Deserialize, PartialEq, Eq)]
pub enum Personality {
    /// like `EmptyFileReader`: a second import of an already imported path is refused
    Strict,
    /// like `IOFileReader` as written: every import succeeds with a new UUID
    Fresh,
    /// like `LSPFileReader`: every import of a path returns the same UUID
    SameId,
    /// not a SimReader personality: the incarnation is served by the real `LSPFileReader`
    /// (lint::ReaderKind::Lsp); no reader fault plan applies
    Lsp,
}

#[derive(Clone, Debug, Serialize, Deserialize, PartialEq, Eq)]
pub enum FaultKind {
    IOErr,
    InvalidPath,
    InternalFileNotFound,
    Unexpected,
    FileAlreadyRead,
}

impl FaultKind {
    pub const ALL: [FaultKind; 5] =
        [FaultKind::IOErr, FaultKind::InvalidPath, FaultKind::InternalFileNotFound, FaultKind::Unexpected, FaultKind::FileAlreadyRead];
    pub fn name(&self) -> &'static str {
        match self {
            FaultKind::IOErr => "io-err",
            FaultKind::InvalidPath => "invalid-path",
            FaultKind::InternalFileNotFound => "internal-not-found",
            FaultKind::Unexpected => "unexpected",
            FaultKind::FileAlreadyRead => "already-read",
        }
    }
    fn to_err(&self, path: &str) -> FileReaderError {
        match self {
            FaultKind::IOErr => FileReaderError::IOErr("simulated I/O error".into()),
            FaultKind::InvalidPath => FileReaderError::InvalidPath,
            FaultKind::InternalFileNotFound => FileReaderError::InternalFileNotFound,
            FaultKind::Unexpected => FileReaderError::Unexpected,
            FaultKind::FileAlreadyRead => FileReaderError::FileAlreadyRead(path.to_string()),
        }
    }
}

/// One planned reader fault: the `import`-th call of `import_file` (1-based; 1 is the base file)
/// fails with `kind`.
#[derive(Clone, Debug, Serialize, Deserialize, PartialEq, Eq)]
pub struct ReaderFault {
    pub import: usize,
    pub kind: FaultKind,
}

#[derive(Clone, Debug, Serialize, Deserialize, PartialEq, Eq)]
pub struct ReaderEvent {
    pub seq: usize,
    pub call: String,
    pub arg: String,
    pub result: String,
}

#[derive(Clone, Debug)]
pub struct SimReader {
    world: World,
    personality: Personality,
    faults: Vec<ReaderFault>,
    /// issued (uuid, resolved path)
    issued: Vec<(Uuid, String)>,
    base: Option<Uuid>,
    imports: usize,
    budget: usize,
    pub budget_exceeded: bool,
    /// characters handed to the parser (sum over successful imports)
    pub imported_chars: usize,
    pub history: Vec<ReaderEvent>,
    pub fired: Vec<(usize, FaultKind)>,
    /// (import index, parent path, requested path, resolved path or "", ok?)
    pub import_log: Vec<ImportRecord>,
    /// when true, get_text/get_filename answer None (legal per the signature)
    pub forget_names: bool,
}

#[derive(Clone, Debug, Serialize, Deserialize, PartialEq, Eq)]
pub struct ImportRecord {
    pub index: usize,
    pub parent: String,
    pub requested: String,
    pub resolved: String,
    pub ok: bool,
    pub error: String,
}

impl SimReader {
    pub fn new(world: &World, personality: Personality, faults: &[ReaderFault]) -> SimReader {
        // a file can be included many times over (replayed lines), each time re-meeting its own
        // directives: allow every occurrence once per occurrence
        let occ = world.include_occurrences();
        // ... but never fewer than the analyzer's own limit on included files (1 000:
        // files that include each other several times over are followed up to that many times)
        let budget = (64 + 8 * occ + occ * occ).max(1000 + 64);
        SimReader {
            world: world.clone(),
            personality,
            faults: faults.to_vec(),
            issued: Vec::new(),
            base: None,
            imports: 0,
            budget,
            budget_exceeded: false,
            imported_chars: 0,
            history: Vec::new(),
            fired: Vec::new(),
            import_log: Vec::new(),
            forget_names: false,
        }
    }

    pub fn path_of(&self, id: Uuid) -> Option<String> {
        self.issued.iter().find(|(u, _)| *u == id).map(|(_, p)| p.clone())
    }

    pub fn imports(&self) -> usize {
        self.imports
    }

    fn note(&mut self, call: &str, arg: &str, result: String) {
        let seq = self.history.len();
        if seq < 4096 {
            self.history.push(ReaderEvent { seq, call: call.into(), arg: arg.into(), result });
        }
    }
}

impl FileReader for SimReader {
    fn import_file(&mut self, path: &str, parent_file: Option<Uuid>) -> Result<(Uuid, String), FileReaderError> {
        self.imports += 1;
        let index = self.imports;
        let parent_path = parent_file.and_then(|p| self.path_of(p));
        let mut rec = ImportRecord {
            index,
            parent: parent_path.clone().unwrap_or_default(),
            requested: path.to_string(),
            resolved: String::new(),
            ok: false,
            error: String::new(),
        };
        let res: Result<(Uuid, String), FileReaderError> = (|| {
            if index > self.budget {
                self.budget_exceeded = true;
                return Err(FileReaderError::IOErr("IMPORT_BUDGET_EXCEEDED".into()));
            }
            if let Some(f) = self.faults.iter().find(|f| f.import == index).cloned() {
                self.fired.push((index, f.kind.clone()));
                return Err(f.kind.to_err(path));
            }
            let resolved = match (parent_file, &parent_path) {
                (None, _) => resolve("", path),
                (Some(_), Some(pp)) => resolve(dir_of(pp), path),
                (Some(_), None) => return Err(FileReaderError::InternalFileNotFound),
            };
            let Some(resolved) = resolved else { return Err(FileReaderError::InvalidPath) };
            rec.resolved = resolved.clone();
            let Some(text) = self.world.files.get(&resolved).cloned() else {
                return Err(FileReaderError::IOErr(format!("No such file or directory: {resolved}")));
            };
            let already = self.issued.iter().find(|(_, p)| *p == resolved).map(|(u, _)| *u);
            let id = match (self.personality, already) {
                (Personality::Strict, Some(_)) => return Err(FileReaderError::FileAlreadyRead(resolved)),
                (Personality::SameId | Personality::Lsp, Some(u)) => u,
                _ => {
                    let u = Uuid::new_v4();
                    self.issued.push((u, resolved));
                    u
                }
            };
            self.base.get_or_insert(id);
            Ok((id, text))
        })();
        match &res {
            Ok((id, text)) => {
                rec.ok = true;
                self.imported_chars += text.chars().count();
                self.note("import_file", path, format!("ok {} bytes id#{}", text.len(), self.issued.iter().position(|(u, _)| u == id).unwrap_or(usize::MAX)));
            }
            Err(e) => {
                rec.error = format!("{e:?}");
                self.note("import_file", path, format!("err {e:?}"));
            }
        }
        if self.import_log.len() < 4096 {
            self.import_log.push(rec);
        }
        res
    }

    fn get_text(&self, uuid: Uuid) -> Option<String> {
        if self.forget_names {
            return None;
        }
        let p = self.path_of(uuid)?;
        self.world.files.get(&p).cloned()
    }

    fn get_filename(&self, uuid: Uuid) -> Option<String> {
        if self.forget_names {
            return None;
        }
        self.path_of(uuid)
    }

    fn get_base_file(&self) -> Option<Uuid> {
        self.base
    }
}
