//! Independent reader of the generator's dialect and reference edge model (DESIGN.md §5.1, I3/I4).
//!
//! Nothing here uses the analyzer's parser: lines are split by hand into labels, mnemonic and
//! operands. A line this reader does not recognise puts the program outside the class for which
//! the reference model speaks (the caller then skips I3/I4), it never guesses.

use crate::world::PastedLine;

#[derive(Clone, Debug, PartialEq, Eq)]
pub enum Flow {
    Plain,
    /// ret / jr ra / jalr zero, ra, 0 / uret
    Return,
    /// unconditional jump to a label
    Jump(String),
    /// call: control comes back to the next instruction
    Call(String),
    /// conditional branch; `always`/`never` when both operands are the zero register
    Branch { target: String, always: bool, never: bool },
    Ecall,
}

#[derive(Clone, Debug)]
pub struct RefInstr {
    /// index into the pasted lines
    pub pasted: usize,
    pub file: String,
    pub line: usize,
    pub flow: Flow,
    pub mnemonic: String,
    pub operands: Vec<String>,
    /// `li a7, N` directly before an ecall makes N known
    pub ecall_number: Option<i64>,
    /// the ecall's number is a value an earlier ecall returned at run time (`ecall; mv a7, a0;
    /// ecall`): nobody can know it statically, so execution may well continue after it
    pub ecall_number_is_runtime_input: bool,
    pub in_text: bool,
}

#[derive(Clone, Debug, Default)]
pub struct RefProgram {
    pub instrs: Vec<RefInstr>,
    /// label -> index of the instruction it names (first instruction after the label)
    pub labels: Vec<(String, usize)>,
    pub unrecognised: Vec<String>,
    pub handler_labels: Vec<String>,
    /// labels that an installation may or may not name (the model cannot tell, e.g. because the
    /// installing code may be dead): neither required to be functions nor forbidden
    pub maybe_handler_labels: Vec<String>,
    /// labels written in the data segment in front of a piece of data: they name that data
    pub data_labels: Vec<String>,
    /// where every label is written: (name, file, zero-based line)
    pub label_sites: Vec<(String, String, usize)>,
}

fn is_zero(r: &str) -> bool {
    r == "zero" || r == "x0"
}
fn is_ra(r: &str) -> bool {
    r == "ra" || r == "x1"
}

const PLAIN: [&str; 40] = [
    "add", "sub", "addi", "li", "mv", "slli", "srli", "srai", "and", "or", "xor", "andi", "ori", "xori", "mul", "div", "rem", "neg", "not", "seqz", "snez", "slt", "sltu", "slti", "sltiu", "sll", "srl", "sra", "lw", "sw", "lb", "sb", "lh",
    "sh", "la", "lui", "nop", "csrrw", "csrw", "csrr",
];
const BR3: [&str; 10] = ["beq", "bne", "blt", "bge", "bltu", "bgeu", "bgt", "ble", "bgtu", "bleu"];
const BR2: [&str; 6] = ["beqz", "bnez", "bltz", "bgez", "blez", "bgtz"];

fn parse_int(s: &str) -> Option<i64> {
    let (neg, t) = s.strip_prefix('-').map_or((false, s), |t| (true, t));
    let v = if let Some(h) = t.strip_prefix("0x") { i64::from_str_radix(h, 16).ok()? } else if let Some(b) = t.strip_prefix("0b") { i64::from_str_radix(b, 2).ok()? } else { t.parse().ok()? };
    Some(if neg { -v } else { v })
}

pub fn parse(pasted: &[PastedLine]) -> RefProgram {
    let mut p = RefProgram::default();
    let mut pending: Vec<String> = Vec::new();
    let mut pending_in_data: Vec<String> = Vec::new();
    let mut in_text = true;
    for (pi, pl) in pasted.iter().enumerate() {
        let mut t = pl.text.as_str();
        if let Some(h) = t.find('#') {
            // the generator never puts '#' inside a string on an instruction line
            if !t[..h].contains('"') {
                t = &t[..h];
            }
        }
        let mut t = t.trim();
        // labels
        loop {
            let Some(c) = t.find(':') else { break };
            let name = &t[..c];
            if name.is_empty() || !name.chars().all(|ch| ch.is_ascii_alphanumeric() || ch == '_') {
                break;
            }
            pending.push(name.to_string());
            if !in_text {
                pending_in_data.push(name.to_string());
            }
            p.label_sites.push((name.to_string(), pl.file.clone(), pl.line));
            t = t[c + 1..].trim();
        }
        if t.is_empty() {
            continue;
        }
        if t.starts_with('.') {
            let d = t.split_whitespace().next().unwrap_or("");
            match d {
                ".data" => in_text = false,
                ".text" => in_text = true,
                ".word" | ".byte" | ".asciz" | ".ascii" | ".string" | ".space" | ".half" => {
                    // the labels written in the data segment in front of it name this piece of data
                    let (data, keep): (Vec<_>, Vec<_>) = pending.drain(..).partition(|l| pending_in_data.contains(l));
                    p.data_labels.extend(data);
                    pending = keep;
                    pending_in_data.clear();
                }
                ".align" => {}
                _ => p.unrecognised.push(t.to_string()),
            }
            // other labels (a function's labels written before a local data block) go on to name
            // the next instruction
            continue;
        }
        let (mn, rest) = t.split_once(char::is_whitespace).unwrap_or((t, ""));
        let ops: Vec<String> = rest.split(',').map(|s| s.trim().to_string()).filter(|s| !s.is_empty()).collect();
        let mn = mn.to_lowercase();
        let flow = match mn.as_str() {
            "ret" | "uret" if ops.is_empty() => Flow::Return,
            "jr" if ops.len() == 1 && is_ra(&ops[0]) => Flow::Return,
            "jalr" if ops.len() == 3 && is_zero(&ops[0]) && is_ra(&ops[1]) && ops[2] == "0" => Flow::Return,
            // a call through a register: comes back to the next instruction (where it goes is not
            // modelled; the generator only calls helpers that return)
            "jalr" if ops.len() == 3 && is_ra(&ops[0]) && ops[2] == "0" => Flow::Plain,
            "j" | "b" if ops.len() == 1 => Flow::Jump(ops[0].clone()),
            "call" if ops.len() == 1 => Flow::Call(ops[0].clone()),
            "jal" if ops.len() == 1 => Flow::Call(ops[0].clone()),
            "jal" if ops.len() == 2 && is_ra(&ops[0]) => Flow::Call(ops[1].clone()),
            // a jump that links into some other register is still just a jump
            "jal" if ops.len() == 2 => Flow::Jump(ops[1].clone()),
            "ecall" if ops.is_empty() => Flow::Ecall,
            m if BR3.contains(&m) && ops.len() == 3 => {
                // decided statically only where the machine's answer does not depend on a register:
                // both operands zero, or an unsigned comparison against zero
                let (z0, z1) = (is_zero(&ops[0]), is_zero(&ops[1]));
                let both_zero = z0 && z1;
                let always = (both_zero && matches!(m, "beq" | "bge" | "bgeu" | "ble" | "bleu")) || (m == "bgeu" && z1) || (m == "bleu" && z0);
                let never = (both_zero && matches!(m, "bne" | "blt" | "bltu" | "bgt" | "bgtu")) || (m == "bltu" && z1) || (m == "bgtu" && z0);
                Flow::Branch { target: ops[2].clone(), always, never }
            }
            m if BR2.contains(&m) && ops.len() == 2 => {
                let z = is_zero(&ops[0]);
                let always = z && matches!(m, "beqz" | "bgez" | "blez");
                let never = z && !always;
                Flow::Branch { target: ops[1].clone(), always, never }
            }
            m if PLAIN.contains(&m) => Flow::Plain,
            _ => {
                p.unrecognised.push(t.to_string());
                continue;
            }
        };
        let idx = p.instrs.len();
        for l in pending.drain(..) {
            p.labels.push((l, idx));
        }
        // ecall number: `li a7|x17, N` on the instruction directly before
        let mut ecall_number = None;
        if flow == Flow::Ecall {
            if let Some(prev) = p.instrs.last() {
                if prev.mnemonic == "li" && prev.operands.len() == 2 && (prev.operands[0] == "a7" || prev.operands[0] == "x17") {
                    ecall_number = parse_int(&prev.operands[1]);
                }
            }
        }
        let mut runtime_number = false;
        if flow == Flow::Ecall && ecall_number.is_none() && p.instrs.len() >= 2 {
            let mv = &p.instrs[p.instrs.len() - 1];
            let before = &p.instrs[p.instrs.len() - 2];
            let a7 = |r: &str| r == "a7" || r == "x17";
            let a0 = |r: &str| r == "a0" || r == "x10";
            let copies = (mv.mnemonic == "mv" && mv.operands.len() == 2 && a7(&mv.operands[0]) && a0(&mv.operands[1]))
                || (mv.mnemonic == "addi" && mv.operands.len() == 3 && a7(&mv.operands[0]) && a0(&mv.operands[1]) && mv.operands[2] == "0");
            // ecalls that hand a value back in a0 (read int, sbrk-style, random, ...)
            let returns_value = before.flow == Flow::Ecall && matches!(before.ecall_number, Some(5 | 9 | 12 | 41 | 42 | 43 | 50));
            runtime_number = copies && returns_value;
        }
        if flow == Flow::Ecall && ecall_number.is_none() && !runtime_number && p.instrs.len() >= 6 {
            // ... or the returned value went through a stack slot while a0 was reused:
            //   ecall(returns a value); addi sp,sp,-4; sw a0,0(sp); li a0,N; [nop;] lw a7,0(sp); addi sp,sp,4; ecall
            let is = |r: &str, names: [&str; 2]| names.contains(&r);
            let sp = |r: &str| is(r, ["sp", "x2"]);
            let a0 = |r: &str| is(r, ["a0", "x10"]);
            let a7 = |r: &str| is(r, ["a7", "x17"]);
            let mut w: Vec<&RefInstr> = p.instrs.iter().rev().take(7).collect();
            w.reverse();
            // drop the optional filler
            if w.len() == 7 && w[4].mnemonic == "nop" {
                w.remove(4);
            } else if w.len() == 7 {
                w.remove(0);
            }
            if w.len() == 6 {
                let returns_value = w[0].flow == Flow::Ecall && matches!(w[0].ecall_number, Some(5 | 9 | 12 | 41 | 42 | 43 | 50));
                let down = w[1].mnemonic == "addi" && w[1].operands.len() == 3 && sp(&w[1].operands[0]) && sp(&w[1].operands[1]) && w[1].operands[2] == "-4";
                let spill = w[2].mnemonic == "sw" && w[2].operands.len() == 2 && a0(&w[2].operands[0]) && matches!(w[2].operands[1].as_str(), "0(sp)" | "0(x2)");
                let reuse = w[3].mnemonic == "li" && w[3].operands.len() == 2 && a0(&w[3].operands[0]);
                let reload = w[4].mnemonic == "lw" && w[4].operands.len() == 2 && a7(&w[4].operands[0]) && matches!(w[4].operands[1].as_str(), "0(sp)" | "0(x2)");
                let up = w[5].mnemonic == "addi" && w[5].operands.len() == 3 && sp(&w[5].operands[0]) && sp(&w[5].operands[1]) && w[5].operands[2] == "4";
                runtime_number = returns_value && down && spill && reuse && reload && up;
            }
        }
        if flow == Flow::Ecall && ecall_number.is_none() && !runtime_number && p.instrs.len() >= 3 {
            // ... or the number sits in a local that was overwritten without naming the slot:
            //   [mv P, sp; li R, M; sw R, 0(P) | jal setslot<M>]; lw a7, 0(sp); li a0, N; ecall
            let k = p.instrs.len();
            let a0 = |r: &str| r == "a0" || r == "x10";
            let a7 = |r: &str| r == "a7" || r == "x17";
            let sp = |r: &str| r == "sp" || r == "x2";
            let arg = p.instrs[k - 1].mnemonic == "li" && p.instrs[k - 1].operands.len() == 2 && a0(&p.instrs[k - 1].operands[0]);
            let reload = p.instrs[k - 2].mnemonic == "lw" && p.instrs[k - 2].operands.len() == 2 && a7(&p.instrs[k - 2].operands[0]) && matches!(p.instrs[k - 2].operands[1].as_str(), "0(sp)" | "0(x2)");
            if arg && reload {
                let w = &p.instrs[k - 3];
                if let Flow::Call(l) = &w.flow {
                    if let Some(m) = l.strip_prefix("setslot").and_then(parse_int) {
                        ecall_number = Some(m);
                    }
                } else if w.mnemonic == "sw" && w.operands.len() == 2 && k >= 5 {
                    let (li, cp) = (&p.instrs[k - 4], &p.instrs[k - 5]);
                    let ptr = w.operands[1].strip_prefix("0(").and_then(|t| t.strip_suffix(')')).unwrap_or("");
                    let copies_sp = (cp.mnemonic == "mv" && cp.operands.len() == 2 && cp.operands[0] == ptr && sp(&cp.operands[1]))
                        || (cp.mnemonic == "addi" && cp.operands.len() == 3 && cp.operands[0] == ptr && sp(&cp.operands[1]) && cp.operands[2] == "0");
                    if !ptr.is_empty() && !sp(ptr) && copies_sp && li.mnemonic == "li" && li.operands.len() == 2 && li.operands[0] == w.operands[0] {
                        ecall_number = parse_int(&li.operands[1]);
                    }
                }
            }
        }
        if flow == Flow::Ecall && ecall_number.is_none() && !runtime_number && p.instrs.len() >= 2 {
            // ... or the number is loaded from a buffer that a service has just filled:
            //   li a7, 8; ecall (ReadString into the buffer at a0); lw a7, 0(sp); ecall
            let k = p.instrs.len();
            let (ld, fill) = (&p.instrs[k - 1], &p.instrs[k - 2]);
            let loads_a7 = ld.mnemonic == "lw" && ld.operands.len() == 2 && (ld.operands[0] == "a7" || ld.operands[0] == "x17") && matches!(ld.operands[1].as_str(), "0(sp)" | "0(x2)");
            runtime_number = loads_a7 && fill.flow == Flow::Ecall && matches!(fill.ecall_number, Some(8 | 63));
        }
        if flow == Flow::Ecall && ecall_number.is_none() && !runtime_number && p.instrs.len() >= 2 {
            // ... or a function was called through a register after a7 had been set: it may have changed it
            //   li a7, N; jalr ra, R, 0; li a0, 42; ecall
            let k = p.instrs.len();
            let through_register = |x: &RefInstr| x.mnemonic == "jalr" && x.operands.len() == 3 && is_ra(&x.operands[0]);
            runtime_number = through_register(&p.instrs[k - 1]) || (p.instrs[k - 1].mnemonic == "li" && !matches!(p.instrs[k - 1].operands.first().map(String::as_str), Some("a7" | "x17")) && through_register(&p.instrs[k - 2]));
        }
        // interrupt handler installation: `la R, L` directly before a csr write to utvec (5)
        if matches!(mn.as_str(), "csrrw" | "csrw") {
            let csr_is_utvec = ops.iter().any(|o| o == "utvec" || o == "5");
            // (the write must not be a jump target: then the `la` above it is the only way in)
            let is_jump_target = p.labels.iter().any(|(_, at)| *at == idx);
            if csr_is_utvec && !is_jump_target {
                if let Some(prev) = p.instrs.last() {
                    if prev.mnemonic == "la" && prev.operands.len() == 2 && ops.iter().any(|o| *o == prev.operands[0]) {
                        p.handler_labels.push(prev.operands[1].clone());
                    }
                }
            }
        }
        p.instrs.push(RefInstr { pasted: pi, file: pl.file.clone(), line: pl.line, flow, mnemonic: mn, operands: ops, ecall_number, ecall_number_is_runtime_input: runtime_number, in_text });
    }
    let mut jump_installed: Vec<(usize, String)> = Vec::new();
    // interrupt handler installation reached only by a jump: the csr write stands behind a label,
    // the instruction written above it is a known exit (so nothing falls into it), and every jump
    // to that label comes straight after `la R, L` with the same L
    for i in 1..p.instrs.len() {
        let ins = &p.instrs[i];
        if !matches!(ins.mnemonic.as_str(), "csrrw" | "csrw") || !ins.operands.iter().any(|o| o == "utvec" || o == "5") {
            continue;
        }
        let above = &p.instrs[i - 1];
        let is_exit = |x: &RefInstr| x.flow == Flow::Ecall && matches!(x.ecall_number, Some(10 | 93)) && !x.ecall_number_is_runtime_input;
        // ... or an instruction nothing leads to: no label on it, and an exit above it
        let above_is_dead = i >= 2 && !p.labels.iter().any(|(_, at)| *at == i - 1) && above.flow == Flow::Plain && is_exit(&p.instrs[i - 2]);
        if !(is_exit(above) || above_is_dead) {
            continue;
        }
        let my_labels: Vec<&String> = p.labels.iter().filter(|(_, at)| *at == i).map(|(l, _)| l).collect();
        let mut sources: Vec<Option<String>> = Vec::new();
        for (k, j) in p.instrs.iter().enumerate() {
            let target = match &j.flow {
                Flow::Jump(t) | Flow::Call(t) => Some(t),
                Flow::Branch { target, .. } => Some(target),
                _ => None,
            };
            if target.is_some_and(|t| my_labels.contains(&t)) {
                let from_la = matches!(j.flow, Flow::Jump(_)) && j.mnemonic != "jal" && k > 0 && {
                    let la = &p.instrs[k - 1];
                    la.mnemonic == "la" && la.operands.len() == 2 && ins.operands.iter().any(|o| *o == la.operands[0])
                };
                sources.push(if from_la { Some(p.instrs[k - 1].operands[1].clone()) } else { None });
            }
        }
        if let Some(Some(first)) = sources.first().cloned() {
            if sources.iter().all(|s| s.as_ref() == Some(&first)) && !p.handler_labels.contains(&first) {
                jump_installed.push((i, first));
            }
        }
    }
    // ... a claim only where the installing code is certainly live; otherwise no verdict on the label
    let reach = p.reachable();
    for (i, label) in jump_installed {
        if reach.as_ref().is_some_and(|r| r[i]) {
            p.handler_labels.push(label);
        } else {
            p.maybe_handler_labels.push(label);
        }
    }
    // labels at the very end name nothing
    p
}

impl RefProgram {
    pub fn target(&self, label: &str) -> Option<usize> {
        self.labels.iter().find(|(l, _)| l == label).map(|(_, i)| *i)
    }

    pub fn is_exit_ecall(&self, i: usize) -> bool {
        matches!(self.instrs[i].flow, Flow::Ecall) && matches!(self.instrs[i].ecall_number, Some(10 | 93))
    }

    /// Required successors (every execution-possible transfer) of instruction `i`.
    /// None if some target label is not defined (program outside the class).
    pub fn required_succs(&self, i: usize) -> Option<Vec<usize>> {
        let next = if i + 1 < self.instrs.len() { Some(i + 1) } else { None };
        let mut v = Vec::new();
        match &self.instrs[i].flow {
            Flow::Plain | Flow::Call(_) => v.extend(next),
            Flow::Return => {}
            Flow::Jump(l) => v.push(self.target(l)?),
            Flow::Branch { target, always, never } => {
                if !*never {
                    v.push(self.target(target)?);
                }
                if !*always {
                    v.extend(next);
                }
            }
            Flow::Ecall => {
                if !self.is_exit_ecall(i) {
                    v.extend(next);
                }
            }
        }
        Some(v)
    }

    pub fn called_labels(&self) -> Vec<String> {
        let mut v: Vec<String> = self.instrs.iter().filter_map(|x| if let Flow::Call(l) = &x.flow { Some(l.clone()) } else { None }).collect();
        // a handler label that names no instruction (a label at the very end) installs nothing
        v.extend(self.handler_labels.iter().filter(|h| self.target(h).is_some()).cloned());
        v.sort();
        v.dedup();
        v
    }

    /// Instructions reachable from the program entry and from the entries of functions called from
    /// reachable instructions. None if the program is outside the class (undefined target, falls off
    /// the end, ecall with unknown number on a reachable path).
    pub fn reachable(&self) -> Option<Vec<bool>> {
        if self.instrs.is_empty() {
            return Some(vec![]);
        }
        let mut seen = vec![false; self.instrs.len()];
        let mut stack = vec![0usize];
        while let Some(i) = stack.pop() {
            if seen[i] {
                continue;
            }
            seen[i] = true;
            let succs = self.required_succs(i)?;
            // every path must end in a return or an exit ecall
            let ends = matches!(self.instrs[i].flow, Flow::Return) || self.is_exit_ecall(i);
            if succs.is_empty() && !ends {
                return None;
            }
            if matches!(self.instrs[i].flow, Flow::Ecall) && self.instrs[i].ecall_number.is_none() && !self.instrs[i].ecall_number_is_runtime_input {
                return None;
            }
            if let Flow::Call(l) = &self.instrs[i].flow {
                stack.push(self.target(l)?);
            }
            stack.extend(succs);
        }
        // interrupt handlers are entered asynchronously once installed
        for h in &self.handler_labels {
            if let Some(t) = self.target(h) {
                if !seen[t] {
                    let mut st = vec![t];
                    while let Some(i) = st.pop() {
                        if seen[i] {
                            continue;
                        }
                        seen[i] = true;
                        let succs = self.required_succs(i)?;
                        // (the same class as above: an ecall whose number the model cannot read off)
                        if matches!(self.instrs[i].flow, Flow::Ecall) && self.instrs[i].ecall_number.is_none() && !self.instrs[i].ecall_number_is_runtime_input {
                            return None;
                        }
                        if let Flow::Call(l) = &self.instrs[i].flow {
                            st.push(self.target(l)?);
                        }
                        st.extend(succs);
                    }
                }
            }
        }
        Some(seen)
    }
}
