//! Entropy seam, in process (DESIGN.md §2.2).
//!
//! The harness binary exports the libc symbol `getrandom`. std's `RandomState` (weak lookup of the
//! symbol) and the vendored `getrandom` crate (used by `Uuid::new_v4` through `rand`) both land
//! here. Each analyzer incarnation runs on a fresh thread whose stream is seeded before any
//! analyzer code runs, so equal seed => equal SipHash keys, equal UUID sequence, equal iteration
//! order of every hash set and map.

use std::cell::Cell;
use std::panic::{catch_unwind, AssertUnwindSafe};

thread_local! {
    static STREAM: Cell<Option<u64>> = const { Cell::new(None) };
    static DRAWS: Cell<u64> = const { Cell::new(0) };
}

/// # Safety
/// C ABI replacement of getrandom(2); `buf` must be valid for `len` bytes.
#[no_mangle]
pub unsafe extern "C" fn getrandom(buf: *mut libc::c_void, len: libc::size_t, flags: libc::c_uint) -> libc::ssize_t {
    let st = STREAM.try_with(Cell::get).ok().flatten();
    match st {
        None => libc::syscall(libc::SYS_getrandom, buf, len, flags) as libc::ssize_t,
        Some(mut s) => {
            if DEBUG_DRAWS.load(std::sync::atomic::Ordering::Relaxed) {
                let msg = format!("[draw len={len} flags={flags}]\n");
                libc::write(2, msg.as_ptr().cast(), msg.len());
            }
            let out = std::slice::from_raw_parts_mut(buf.cast::<u8>(), len);
            for chunk in out.chunks_mut(8) {
                let v = crate::rng::splitmix64(&mut s).to_le_bytes();
                chunk.copy_from_slice(&v[..chunk.len()]);
            }
            STREAM.with(|c| c.set(Some(s)));
            DRAWS.with(|c| c.set(c.get() + 1));
            len as libc::ssize_t
        }
    }
}

pub static DEBUG_DRAWS: std::sync::atomic::AtomicBool = std::sync::atomic::AtomicBool::new(false);

/// `rand`'s thread RNG reseeds itself on first use in any thread created after the process has
/// forked at least once (it counts forks through `pthread_atfork`). A harness process forks when it
/// starts `rva` children, so whether an incarnation makes that extra 32-byte draw would depend on
/// the process's history and shift every later draw (hash keys, UUIDs). Put every harness process
/// into the "has forked" state before the first incarnation: register the handler (by creating a
/// thread RNG), then fork once.
pub fn normalise_fork_state() {
    let _ = uuid::Uuid::new_v4();
    unsafe {
        let pid = libc::fork();
        if pid == 0 {
            libc::_exit(0);
        } else if pid > 0 {
            let mut st = 0;
            libc::waitpid(pid, &mut st, 0);
        }
    }
}

pub struct IncOutcome<T> {
    pub result: Result<T, PanicInfo>,
    /// number of getrandom calls the incarnation made (proof the seam was in the path)
    pub entropy_draws: u64,
}

#[derive(Clone, Debug, serde::Serialize, serde::Deserialize, PartialEq, Eq)]
pub struct PanicInfo {
    pub message: String,
    pub location: String,
    /// Some(site) if the payload is the tick-budget marker
    pub budget_site: Option<String>,
}

thread_local! {
    static LAST_PANIC_LOC: Cell<Option<String>> = const { Cell::new(None) };
}

pub fn install_panic_hook() {
    std::panic::set_hook(Box::new(|info| {
        let loc = info
            .location()
            .map(|l| format!("{}:{}", l.file(), l.line()))
            .unwrap_or_default();
        let _ = LAST_PANIC_LOC.try_with(|c| c.set(Some(loc)));
    }));
}

const STACK: usize = 32 << 20;

/// Run `f` as one analyzer incarnation: fresh thread, seeded entropy stream, panics caught.
pub fn incarnation<T: Send + 'static>(entropy_seed: u64, f: impl FnOnce() -> T + Send + 'static) -> IncOutcome<T> {
    let h = std::thread::Builder::new()
        .stack_size(STACK)
        .spawn(move || {
            // distinct from the seed itself so that seed 0 is a fine seed
            STREAM.with(|c| c.set(Some(entropy_seed ^ 0xA5A5_5A5A_C3C3_3C3C)));
            DRAWS.with(|c| c.set(0));
            let r = catch_unwind(AssertUnwindSafe(f));
            let draws = DRAWS.with(Cell::get);
            let r = r.map_err(|p| {
                let location = LAST_PANIC_LOC.with(Cell::take).unwrap_or_default();
                if let Some(b) = p.downcast_ref::<riscv_analysis::verif::VerifBudgetExceeded>() {
                    PanicInfo { message: format!("tick budget exceeded at {}", b.0), location, budget_site: Some(b.0.to_string()) }
                } else if let Some(s) = p.downcast_ref::<&str>() {
                    PanicInfo { message: (*s).to_string(), location, budget_site: None }
                } else if let Some(s) = p.downcast_ref::<String>() {
                    PanicInfo { message: s.clone(), location, budget_site: None }
                } else {
                    PanicInfo { message: "<non-string panic payload>".into(), location, budget_site: None }
                }
            });
            // stop feeding the stream to whatever runs during thread teardown
            STREAM.with(|c| c.set(None));
            (r, draws)
        })
        .expect("spawn incarnation thread");
    let (result, entropy_draws) = h.join().expect("incarnation thread itself must not die");
    IncOutcome { result, entropy_draws }
}
