//! Worlds: a tree of files plus a base file (DESIGN.md §3.2), the cutter that turns one program
//! into an include tree, and the reference model of `.include` = textual inclusion (`paste`).

use crate::rng::Rng;
use serde::{Deserialize, Serialize};
use std::collections::BTreeMap;

#[derive(Clone, Debug, Serialize, Deserialize, PartialEq, Eq, Default)]
pub struct World {
    pub base: String,
    /// path (relative to the sandbox root, '/'-separated, normalised) -> text
    pub files: BTreeMap<String, String>,
    /// T2 only: raw bytes (hex) that override `files[path]` when the sandbox is materialised
    #[serde(default, skip_serializing_if = "BTreeMap::is_empty")]
    pub binary: BTreeMap<String, String>,
    /// T2 only: directories / symlinks in place of files
    #[serde(default, skip_serializing_if = "BTreeMap::is_empty")]
    pub special: BTreeMap<String, Special>,
}

#[derive(Clone, Debug, Serialize, Deserialize, PartialEq, Eq)]
pub enum Special {
    Dir,
    Symlink(String),
    /// a named pipe in place of the file: `files[path]` is delivered once, to the first reader
    Fifo,
}

impl World {
    pub fn single(text: &str) -> World {
        let mut files = BTreeMap::new();
        files.insert("base.s".to_string(), text.to_string());
        World { base: "base.s".into(), files, ..World::default() }
    }
    pub fn content_hash(&self) -> u64 {
        let mut h = crate::rng::hash_str(&self.base);
        for (p, t) in &self.files {
            h = crate::rng::mix(&[h, crate::rng::hash_str(p), crate::rng::hash_str(t)]);
        }
        for (p, t) in &self.binary {
            h = crate::rng::mix(&[h, crate::rng::hash_str(p), crate::rng::hash_str(t)]);
        }
        h
    }
    pub fn total_bytes(&self) -> usize {
        self.files.values().map(String::len).sum()
    }
    pub fn include_directives(&self) -> usize {
        self.files.values().map(|t| t.lines().filter(|l| parse_include(l).is_some()).count()).sum()
    }
    /// Upper bound on the include directives the parser can meet in one pass over every file:
    /// occurrences of the directive name, wherever they stand (faulted text can put many on a line).
    pub fn include_occurrences(&self) -> usize {
        self.files.values().map(|t| t.matches(".include").count()).sum()
    }
}

impl World {
    /// Upper estimate of the characters the parser is handed when every occurrence of
    /// `.include "name"` - wherever it stands on a line (faulted text can put hundreds on one) - is
    /// followed: the size of the program the analyzer really sees. Capped at `cap`.
    pub fn effective_chars(&self, cap: usize) -> usize {
        fn go(w: &World, path: &str, depth: usize, cap: usize, budget: &mut usize) -> usize {
            let Some(text) = w.files.get(path) else { return 0 };
            let mut total = text.len();
            if depth > 12 {
                return total;
            }
            let mut rest = text.as_str();
            while let Some(at) = rest.find(".include") {
                rest = &rest[at + 8..];
                let Some(q) = rest.find('"') else { break };
                if !rest[..q].trim().is_empty() {
                    continue;
                }
                let after = &rest[q + 1..];
                let Some(e) = after.find('"') else { break };
                if *budget == 0 || total > cap {
                    return total.max(cap + 1);
                }
                *budget -= 1;
                if let Some(t) = resolve(dir_of(path), &after[..e]) {
                    if t != path {
                        total += go(w, &t, depth + 1, cap, budget);
                    }
                }
                rest = &after[e + 1..];
            }
            total
        }
        let mut budget = 20_000usize;
        go(self, &self.base, 0, cap, &mut budget)
    }

    /// Resolve `rel` against directory `dir` the way the file system does: components are walked
    /// one by one and a component that is a directory symlink of this world (`special`) is replaced
    /// by its target before going on, so that `link/../x.s` lands next to the link's *target*.
    /// Without symlinks this is `resolve`.
    pub fn resolve_in(&self, dir: &str, rel: &str) -> Option<String> {
        if !self.special.values().any(|s| matches!(s, Special::Symlink(_))) {
            return resolve(dir, rel);
        }
        let mut parts: Vec<String> = Vec::new();
        let all = if rel.starts_with('/') || dir.is_empty() { rel.to_string() } else { format!("{dir}/{rel}") };
        let mut hops = 0;
        let mut todo: Vec<String> = all.split('/').rev().map(str::to_string).collect();
        while let Some(c) = todo.pop() {
            match c.as_str() {
                "" | "." => {}
                ".." => {
                    parts.pop()?;
                }
                x => {
                    parts.push(x.to_string());
                    let joined = parts.join("/");
                    if let Some(Special::Symlink(t)) = self.special.get(&joined) {
                        // only links to directories of this world are followed here; a link in
                        // place of a file is left to the caller (it is a failing include)
                        let is_dir_link = self.files.keys().any(|k| {
                            let base = resolve(dir_of(&joined), t).unwrap_or_default();
                            k.starts_with(&format!("{base}/"))
                        });
                        if is_dir_link {
                            hops += 1;
                            if hops > 16 {
                                return None;
                            }
                            parts.pop();
                            for comp in t.split('/').rev() {
                                todo.push(comp.to_string());
                            }
                        }
                    }
                }
            }
        }
        Some(parts.join("/"))
    }
}

/// Directory part of a path ("" for top level, otherwise ends without '/').
pub fn dir_of(path: &str) -> &str {
    match path.rfind('/') {
        Some(i) => &path[..i],
        None => "",
    }
}

/// Resolve `rel` against directory `dir`, normalising "." and "..". None if it escapes the root.
pub fn resolve(dir: &str, rel: &str) -> Option<String> {
    let mut parts: Vec<&str> = if rel.starts_with('/') || dir.is_empty() { vec![] } else { dir.split('/').collect() };
    for p in rel.split('/') {
        match p {
            "" | "." => {}
            ".." => {
                parts.pop()?;
            }
            x => parts.push(x),
        }
    }
    Some(parts.join("/"))
}

/// Path of `target` as written inside a file living in `from_dir`.
pub fn relative(from_dir: &str, target: &str) -> String {
    let f: Vec<&str> = if from_dir.is_empty() { vec![] } else { from_dir.split('/').collect() };
    let t: Vec<&str> = target.split('/').collect();
    let mut common = 0;
    while common < f.len() && common + 1 < t.len() && f[common] == t[common] {
        common += 1;
    }
    let mut out: Vec<String> = Vec::new();
    for _ in common..f.len() {
        out.push("..".into());
    }
    for p in &t[common..] {
        out.push((*p).to_string());
    }
    out.join("/")
}

/// Recognise an include directive line written by the cutter: `<ws>.include "<path>"<ws>[# ...]`.
pub fn parse_include(line: &str) -> Option<&str> {
    let t = line.trim_start();
    let rest = t.strip_prefix(".include")?;
    if !rest.starts_with([' ', '\t']) {
        return None;
    }
    let rest = rest.trim_start();
    let rest = rest.strip_prefix('"')?;
    let end = rest.find('"')?;
    let after = rest[end + 1..].trim();
    if !(after.is_empty() || after.starts_with('#')) {
        return None;
    }
    Some(&rest[..end])
}

#[derive(Clone, Debug, Serialize, Deserialize)]
pub struct CutCfg {
    pub includes: usize,
    pub max_depth: usize,
    pub subdirs: bool,
    pub trailing_newline: bool,
    pub crlf: bool,
}

impl CutCfg {
    pub fn swarm(r: &mut Rng) -> CutCfg {
        CutCfg {
            includes: match r.below(8) {
                0..=1 => 0,
                2..=4 => 1 + r.usize(2),
                _ => 2 + r.usize(5),
            },
            max_depth: 1 + r.usize(3),
            subdirs: r.chance(1, 2),
            trailing_newline: r.chance(3, 4),
            crlf: r.chance(1, 12),
        }
    }
}

struct Cutter<'a> {
    r: &'a mut Rng,
    cfg: CutCfg,
    files: BTreeMap<String, String>,
    n: usize,
    left: usize,
}

impl Cutter<'_> {
    fn join(&mut self, lines: &[String]) -> String {
        let mut s = lines.join("\n");
        if self.cfg.trailing_newline && !lines.is_empty() {
            s.push('\n');
        }
        s
    }

    fn cut(&mut self, lines: &[String], continues: &[bool], path: &str, depth: usize) {
        let mut out: Vec<String> = Vec::new();
        let mut i = 0;
        // A directive is a statement of its own: it cannot stand *inside* another statement (a
        // data list that goes on over several lines, a macro definition) the way pasted text can,
        // so no cut starts on a line that continues the statement above it. A cut may well *end*
        // inside such a statement: the included file then stops in the middle of it.
        // (`continues` is computed once, on the whole program: whether a blank line at the end of
        // a chunk stands in front of a continuation line is decided by what follows the chunk)
        while i < lines.len() {
            let remaining = lines.len() - i;
            let want = self.left > 0 && !continues[i] && depth < self.cfg.max_depth && remaining >= 1 && self.r.chance(1, (lines.len() as u64 / 3).max(2));
            if want {
                let len = 1 + self.r.usize(remaining.min(12));
                self.left -= 1;
                self.n += 1;
                let dir = dir_of(path).to_string();
                let child_dir = if self.cfg.subdirs {
                    match self.r.below(4) {
                        0 => format!("{}{}d{}", dir, if dir.is_empty() { "" } else { "/" }, self.n),
                        1 => dir_of(&dir).to_string(),
                        _ => dir.clone(),
                    }
                } else {
                    dir.clone()
                };
                let child = format!("{}{}inc{}.s", child_dir, if child_dir.is_empty() { "" } else { "/" }, self.n);
                let rel = relative(&dir, &child);
                // the same file can be spelled in more than one way
                let rel = if self.r.chance(1, 8) { format!("./{rel}") } else { rel };
                let indent = if self.r.chance(1, 2) { "    " } else { "" };
                out.push(format!("{indent}.include \"{rel}\""));
                let chunk: Vec<String> = lines[i..i + len].to_vec();
                self.cut(&chunk, &continues[i..i + len], &child, depth + 1);
                i += len;
            } else {
                out.push(lines[i].clone());
                i += 1;
            }
        }
        let text = self.join(&out);
        self.files.insert(path.to_string(), text);
    }
}

/// Include one file a second time: the directive of a file that defines no label (so that the
/// second copy is legal) and includes nothing itself is written twice. The two copies stand in
/// different contexts and can get different diagnostics, at positions that interleave.
pub fn include_twice(world: &mut World, r: &mut Rng) -> bool {
    let mut sites: Vec<(String, usize)> = Vec::new();
    for (p, t) in &world.files {
        let lines = split_lines(t);
        let continues = statement_continues(&lines);
        for (i, l) in lines.iter().enumerate() {
            let Some(rel) = parse_include(l) else { continue };
            let Some(target) = resolve(dir_of(p), rel) else { continue };
            let Some(tt) = world.files.get(&target) else { continue };
            let label_free = !split_lines(tt).iter().any(|x| x.split('#').next().unwrap_or("").contains(':') || parse_include(x).is_some());
            if label_free && !continues.get(i + 1).copied().unwrap_or(false) {
                sites.push((p.clone(), i));
            }
        }
    }
    if sites.is_empty() {
        return false;
    }
    let (p, i) = r.pick(&sites).clone();
    let t = world.files[&p].clone();
    let mut ls: Vec<String> = split_lines(&t).iter().map(|s| (*s).to_string()).collect();
    let dup = ls[i].clone();
    // not directly behind the first copy: a few lines further down where possible
    let continues = statement_continues(&ls);
    let mut at = (i + 1 + r.usize(4)).min(ls.len());
    while at < ls.len() && continues[at] {
        at += 1;
    }
    ls.insert(at, dup);
    let mut nt = ls.join("\n");
    if t.ends_with('\n') {
        nt.push('\n');
    }
    world.files.insert(p, nt);
    true
}

/// For each line: does it continue the statement of the line above (a data list that goes on, the
/// body and end of a macro definition)? A directive cannot be put in front of such a line.
pub fn statement_continues<S: AsRef<str>>(lines: &[S]) -> Vec<bool> {
    let mut continues = vec![false; lines.len()];
    let mut in_macro = false;
    for (k, l) in lines.iter().enumerate() {
        let t = l.as_ref().trim_start();
        if in_macro {
            continues[k] = true;
            if t.starts_with(".endmacro") {
                in_macro = false;
            }
        } else if t.starts_with(".macro") {
            in_macro = true;
        } else if t.starts_with(|c: char| c.is_ascii_digit() || c == '-') {
            continues[k] = true;
        }
    }
    // blank and comment-only lines do not end a list: one that stands in front of a continuation
    // line is inside the statement as well
    for k in (0..lines.len().saturating_sub(1)).rev() {
        let t = lines[k].as_ref().trim();
        if (t.is_empty() || t.starts_with('#')) && continues[k + 1] {
            continues[k] = true;
        }
    }
    continues
}

/// Cut a program (lines) into an include tree. Pasting the result reproduces the lines.
pub fn cut(lines: &[String], cfg: &CutCfg, r: &mut Rng) -> World {
    let mut c = Cutter { r, cfg: cfg.clone(), files: BTreeMap::new(), n: 0, left: cfg.includes };
    let continues = statement_continues(lines);
    c.cut(lines, &continues, "base.s", 0);
    let mut files = c.files;
    if cfg.crlf {
        for t in files.values_mut() {
            *t = t.replace('\n', "\r\n");
        }
    }
    World { base: "base.s".into(), files, ..World::default() }
}

#[derive(Clone, Debug, PartialEq, Eq)]
pub struct PastedLine {
    pub text: String,
    pub file: String,
    /// zero-based line in `file`
    pub line: usize,
}

/// Reference model of `.include`: textual inclusion. `failed` lists (file, zero-based line) of
/// directives whose include is modelled as failing: they paste as an empty line.
pub fn paste(world: &World, failed: &[(String, usize)]) -> Vec<PastedLine> {
    // An include of a file that is already being pasted (a cycle) is modelled as failing: textual
    // inclusion has no finite meaning there, and the analyzer refuses it the same way. The size
    // guard keeps a diamond-shaped tree (every file including the next one several times) from
    // growing exponentially; callers treat a world that large as "too large" anyway.
    fn go(world: &World, path: &str, failed: &[(String, usize)], out: &mut Vec<PastedLine>, ancestors: &mut Vec<String>) {
        let Some(text) = world.files.get(path) else { return };
        let lines: Vec<&str> = split_lines(text);
        ancestors.push(path.to_string());
        for (i, l) in lines.iter().enumerate() {
            if let Some(rel) = parse_include(l) {
                let is_failed = failed.iter().any(|(f, ln)| f == path && *ln == i);
                let target = resolve(dir_of(path), rel);
                match target {
                    Some(t) if !is_failed && world.files.contains_key(&t) && !ancestors.contains(&t) && ancestors.len() < 16 && out.len() < 200_000 => {
                        go(world, &t, failed, out, ancestors);
                    }
                    _ => out.push(PastedLine { text: String::new(), file: path.to_string(), line: i }),
                }
            } else {
                out.push(PastedLine { text: (*l).to_string(), file: path.to_string(), line: i });
            }
        }
        ancestors.pop();
    }
    let mut out = Vec::new();
    go(world, &world.base, failed, &mut out, &mut Vec::new());
    out
}

/// Lines of a text as the analyzer numbers them: split at '\n'; a trailing newline does not start a
/// further line.
pub fn split_lines(text: &str) -> Vec<&str> {
    let mut v: Vec<&str> = text.split('\n').collect();
    if v.last() == Some(&"") {
        v.pop();
    }
    v
}

pub fn pasted_text(lines: &[PastedLine]) -> String {
    let mut s = String::new();
    for l in lines {
        s.push_str(&l.text);
        s.push('\n');
    }
    s
}
