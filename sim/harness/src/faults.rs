//! Content faults (DESIGN.md §4.2): what an unreliable store hands back. Applied to the bytes of a
//! file of the world when the scenario is generated; the scenario records (kind, path).

use crate::rng::Rng;
use crate::world::World;

pub const KINDS: [&str; 15] = [
    "odd-include-name", "filled-block", "torn-in-literal", "torn-write", "lost-write", "write-replay", "interleaved-versions", "bit-flip", "byte-substitution", "crlf", "lone-cr", "nul-bytes", "bom", "size-multiplier", "invalid-utf8",
];

/// Apply one content fault of `kind` to `path`. Returns false if it did not change anything.
pub fn apply(world: &mut World, path: &str, kind: &str, r: &mut Rng, allow_binary: bool) -> bool {
    let Some(text) = world.files.get(path).cloned() else { return false };
    let mut bytes = text.clone().into_bytes();
    let before = bytes.clone();
    match kind {
        "torn-write" => {
            if bytes.is_empty() {
                return false;
            }
            let at = r.usize(bytes.len());
            bytes.truncate(at);
        }
        "torn-in-literal" => {
            // the save was cut inside a string or character literal (after a quote or a backslash)
            let marks: Vec<usize> = bytes.iter().enumerate().filter(|(_, b)| matches!(**b, b'"' | b'\'' | b'\\')).map(|(i, _)| i).collect();
            if marks.is_empty() {
                return false;
            }
            let at = *r.pick(&marks) + 1 + r.usize(6);
            bytes.truncate(at.min(bytes.len()));
        }
        "filled-block" => {
            // a block that was allocated but never written, or overwritten by a repeated byte:
            // 64 B .. 64 KiB of one value
            let len = 64usize << r.usize(11);
            let at = r.usize(bytes.len() + 1);
            let block: Vec<u8> = if r.chance(1, 2) {
                let fill = *r.pick(&[0u8, 0xFF, b' ', b'\n', b'.', b'#', b'"', b'(', b',', b'-', b'0', b'\'']);
                vec![fill; len]
            } else {
                // ... or by a short record repeated over and over
                const RECS: [&str; 16] = [". ", ".,", ".\t", ".\r", "(\n", "\" ", "' ", ":\n", "- ", "0x", "a:", ".a ", "\\\"", "#\n", ", ,", "()"];
                let rec: &[u8] = r.pick(&RECS).as_bytes();
                rec.iter().copied().cycle().take(len).collect()
            };
            if r.chance(1, 2) {
                let end = (at + len).min(bytes.len());
                bytes.splice(at..end, block);
            } else {
                bytes.splice(at..at, block);
            }
        }
        "lost-write" => bytes.clear(),
        "write-replay" => {
            let lines: Vec<&str> = text.split_inclusive('\n').collect();
            if lines.is_empty() {
                return false;
            }
            let a = r.usize(lines.len());
            let b = (a + 1 + r.usize(4)).min(lines.len());
            let block: String = lines[a..b].concat();
            let times = 1 + r.usize(3);
            let mut out: String = lines[..b].concat();
            for _ in 0..times {
                out.push_str(&block);
            }
            out.push_str(&lines[b..].concat());
            bytes = out.into_bytes();
        }
        "size-multiplier" => {
            // write replay 2^k of a block: a few hundred to ~1200 lines. The analyzer is roughly cubic in
            // the number of instructions (about 11 s of CPU for 2000 lines in a release build), so the
            // multiplier stops where a terminating run still fits well inside the CPU limit.
            let lines: Vec<&str> = text.split_inclusive('\n').collect();
            if lines.is_empty() {
                return false;
            }
            let a = r.usize(lines.len());
            let b = (a + 1 + r.usize(3)).min(lines.len());
            let block: String = lines[a..b].concat();
            let k = 4 + r.usize(5);
            let mut rep = block.clone();
            for _ in 0..k {
                rep = format!("{rep}{rep}");
                if rep.len() > 12_000 {
                    break;
                }
            }
            let mut out: String = lines[..b].concat();
            out.push_str(&rep);
            out.push_str(&lines[b..].concat());
            bytes = out.into_bytes();
        }
        "interleaved-versions" => {
            // lines from two revisions: the other revision has a block removed and operands changed
            let lines: Vec<&str> = text.split_inclusive('\n').collect();
            if lines.len() < 2 {
                return false;
            }
            let mut out = String::new();
            for l in &lines {
                match r.below(6) {
                    0 => {}
                    1 => {
                        out.push_str(l);
                        out.push_str(l);
                    }
                    2 => out.push_str(&l.replacen("a0", "t9", 1)),
                    _ => out.push_str(l),
                }
            }
            bytes = out.into_bytes();
        }
        "bit-flip" => {
            if bytes.is_empty() {
                return false;
            }
            let n = 1 + r.usize(3);
            for _ in 0..n {
                let at = r.usize(bytes.len());
                bytes[at] ^= 1 << r.usize(8);
            }
        }
        "byte-substitution" => {
            if bytes.is_empty() {
                return false;
            }
            let n = 1 + r.usize(3);
            for _ in 0..n {
                let at = r.usize(bytes.len());
                bytes[at] = *r.pick(&[b'"', b'\'', b'\\', b'(', b')', b'.', b'#', b':', b'-', b'0', b'x', b'\n', b'\t', b',', b'9', b'u', 0x7f, b'%', b'@']);
            }
        }
        "crlf" => bytes = text.replace('\n', "\r\n").into_bytes(),
        "lone-cr" => bytes = text.replace('\n', "\r").into_bytes(),
        "nul-bytes" => {
            if bytes.is_empty() {
                return false;
            }
            let at = r.usize(bytes.len());
            bytes.insert(at, 0);
        }
        "bom" => {
            let mut b = vec![0xEF, 0xBB, 0xBF];
            b.extend_from_slice(&bytes);
            bytes = b;
        }
        "odd-include-name" => {
            // the text between the quotes of an include directive is input like any other: names
            // that are no path, no URL reference, or that mean something else to a URL parser
            const NAMES: [&str; 16] = ["//[", "http://a b/", "//a:b/", "", ".", "..", "/", "a#b.s", "c%20d.s", "%zz", "file:///etc/passwd", "\\\\srv\\x.s", "x.s?y=1", "~/x.s", "a\tb.s", "untitled:Untitled-1"];
            let lines: Vec<&str> = text.split('\n').collect();
            let dirs: Vec<usize> = lines.iter().enumerate().filter(|(_, l)| crate::world::parse_include(l).is_some()).map(|(i, _)| i).collect();
            let name = *r.pick(&NAMES);
            let new_line = format!(".include \"{name}\"");
            let mut out: Vec<String> = lines.iter().map(|l| (*l).to_string()).collect();
            if dirs.is_empty() {
                // no directive to spoil: add one
                let at = r.usize(out.len() + 1);
                out.insert(at, new_line);
            } else {
                let at = *r.pick(&dirs);
                out[at] = new_line;
            }
            bytes = out.join("\n").into_bytes();
        }
        "invalid-utf8" => {
            if bytes.is_empty() {
                return false;
            }
            let at = r.usize(bytes.len());
            bytes[at] = *r.pick(&[0xFF, 0xC3, 0xE2, 0x80, 0xF0]);
        }
        _ => return false,
    }
    if bytes == before {
        return false;
    }
    match String::from_utf8(bytes.clone()) {
        Ok(s) => {
            world.files.insert(path.to_string(), s);
            world.binary.remove(path);
        }
        Err(_) => {
            // in process the text is decoded lossily; the real process gets the raw bytes
            world.files.insert(path.to_string(), String::from_utf8_lossy(&bytes).into_owned());
            if allow_binary {
                world.binary.insert(path.to_string(), crate::t2::hex(&bytes));
            }
        }
    }
    true
}
