//! Snapshot of a finished `Cfg` as plain data (DESIGN.md §5.1). Nodes, successors and predecessors
//! are identified by **pointer identity through iteration** — never by a hash lookup, because the
//! hash sets under observation may hold entries whose keys were mutated in place.

use riscv_analysis::cfg::{Cfg, CfgNode, Function};
use riscv_analysis::parser::{InstructionProperties, ParserNode};
use riscv_analysis::passes::DiagnosticLocation;
use riscv_analysis::reader::FileReader;
use serde::{Deserialize, Serialize};
use std::rc::Rc;

pub const NONE: usize = usize::MAX;

#[derive(Clone, Debug, Serialize, Deserialize, PartialEq, Eq, Default)]
pub struct NodeSnap {
    pub kind: String,
    pub text: String,
    pub file: String,
    pub line: usize,
    pub col: usize,
    pub end_col: usize,
    pub labels: Vec<String>,
    pub nexts: Vec<usize>,
    pub prevs: Vec<usize>,
    pub funcs: Vec<usize>,
    pub is_return: bool,
    pub is_ureturn: bool,
    pub is_uncond_jump: bool,
    pub is_ecall: bool,
    pub is_func_entry: bool,
    pub is_prog_entry: bool,
    pub is_program_exit: bool,
    pub rewritten_return: bool,
    pub jumps_to: Option<String>,
    pub calls_to: Option<String>,
    pub known_ecall: Option<i32>,
    pub text_segment: bool,
    /// reg_in, reg_out, mem_in, mem_out, live_in, live_out, u_def
    pub facts: Vec<String>,
}

#[derive(Clone, Debug, Serialize, Deserialize, PartialEq, Eq, Default)]
pub struct FuncSnap {
    pub entry: usize,
    pub exit: usize,
    /// as listed by `Function::nodes()`, in its order, duplicates kept
    pub nodes: Vec<usize>,
    pub labels: Vec<String>,
    pub defs: String,
}

#[derive(Clone, Debug, Serialize, Deserialize, PartialEq, Eq, Default)]
pub struct Snap {
    pub nodes: Vec<NodeSnap>,
    pub funcs: Vec<FuncSnap>,
    /// labels of `cfg.functions()` in iteration order (a reach probe, not an oracle input)
    pub fn_key_order: Vec<String>,
    /// label -> function index, sorted by label
    pub fn_by_label: Vec<(String, usize)>,
}

pub const FACT_NAMES: [&str; 7] = ["reg_values_in", "reg_values_out", "memory_values_in", "memory_values_out", "live_in", "live_out", "u_def"];

fn kind_of(n: &ParserNode) -> &'static str {
    match n {
        ParserNode::ProgramEntry(_) => "ProgramEntry",
        ParserNode::FuncEntry(_) => "FuncEntry",
        ParserNode::Arith(_) => "Arith",
        ParserNode::IArith(_) => "IArith",
        ParserNode::Label(_) => "Label",
        ParserNode::JumpLink(_) => "JumpLink",
        ParserNode::JumpLinkR(_) => "JumpLinkR",
        ParserNode::Basic(_) => "Basic",
        ParserNode::Directive(_) => "Directive",
        ParserNode::Branch(_) => "Branch",
        ParserNode::Store(_) => "Store",
        ParserNode::Load(_) => "Load",
        ParserNode::LoadAddr(_) => "LoadAddr",
        ParserNode::Csr(_) => "Csr",
        ParserNode::CsrI(_) => "CsrI",
    }
}

fn sorted_kv<K: std::fmt::Display, V: std::fmt::Debug>(it: impl Iterator<Item = (K, V)>) -> String {
    let mut v: Vec<String> = it.map(|(k, v)| format!("{k}={v:?}")).collect();
    v.sort();
    v.join(";")
}

pub fn take<R: FileReader>(cfg: &Cfg, reader: &R) -> Snap {
    let nodes: &Vec<Rc<CfgNode>> = cfg.nodes();
    let idx_of = |n: &Rc<CfgNode>| -> usize {
        let p = Rc::as_ptr(n);
        nodes.iter().position(|m| std::ptr::eq(Rc::as_ptr(m), p)).unwrap_or(NONE)
    };

    // functions, deduplicated by pointer, ordered by entry index then label
    let fmap = cfg.functions();
    let fn_key_order: Vec<String> = fmap.keys().map(|k| k.get().to_string()).collect();
    let mut funcs_rc: Vec<Rc<Function>> = Vec::new();
    for f in fmap.values() {
        if !funcs_rc.iter().any(|g| Rc::ptr_eq(g, f)) {
            funcs_rc.push(Rc::clone(f));
        }
    }
    // functions only known through node annotations (should not exist; kept so F2 can see them)
    for n in nodes {
        for f in n.functions().iter() {
            if !funcs_rc.iter().any(|g| Rc::ptr_eq(g, f)) {
                funcs_rc.push(Rc::clone(f));
            }
        }
    }
    funcs_rc.sort_by_key(|f| {
        let mut l: Vec<String> = f.labels().iter().map(|x| x.get().to_string()).collect();
        l.sort();
        (idx_of(&f.entry()), l)
    });
    let fidx_of = |f: &Rc<Function>| funcs_rc.iter().position(|g| Rc::ptr_eq(g, f)).unwrap_or(NONE);

    let mut out_nodes = Vec::with_capacity(nodes.len());
    for n in nodes {
        let pn = n.node();
        let range = n.range();
        let mut labels: Vec<String> = n.labels.iter().map(|l| l.get().to_string()).collect();
        labels.sort();
        let mut nexts: Vec<usize> = n.nexts().iter().map(&idx_of).collect();
        nexts.sort_unstable();
        let mut prevs: Vec<usize> = n.prevs().iter().map(&idx_of).collect();
        prevs.sort_unstable();
        let mut funcs: Vec<usize> = n.functions().iter().map(&fidx_of).collect();
        funcs.sort_unstable();
        let rewritten = matches!(&pn, ParserNode::JumpLink(j) if j.name.get().as_str() == "__return__");
        let facts = vec![
            sorted_kv(n.reg_values_in().iter()),
            sorted_kv(n.reg_values_out().iter()),
            sorted_kv(n.memory_values_in().iter()),
            sorted_kv(n.memory_values_out().iter()),
            n.live_in().to_string(),
            n.live_out().to_string(),
            n.u_def().to_string(),
        ];
        out_nodes.push(NodeSnap {
            kind: kind_of(&pn).to_string(),
            text: n.raw_text(),
            file: reader.get_filename(n.file()).map_or_else(|| "<unknown>".into(), |f| crate::lspreader::strip_root(&f)),
            line: range.start().zero_idx_line(),
            col: range.start().zero_idx_column(),
            end_col: range.end().zero_idx_column(),
            labels,
            nexts,
            prevs,
            funcs,
            is_return: n.is_return(),
            is_ureturn: n.is_ureturn(),
            is_uncond_jump: n.is_unconditional_jump(),
            is_ecall: n.is_ecall(),
            is_func_entry: n.is_function_entry(),
            is_prog_entry: n.is_program_entry(),
            is_program_exit: n.is_program_exit(),
            rewritten_return: rewritten,
            jumps_to: n.jumps_to().map(|l| l.get().to_string()),
            calls_to: n.calls_to().map(|l| l.get().to_string()),
            known_ecall: n.known_ecall(),
            text_segment: n.segment() == riscv_analysis::cfg::Segment::Text,
            facts,
        });
    }

    let mut out_funcs = Vec::new();
    for f in &funcs_rc {
        let mut labels: Vec<String> = f.labels().iter().map(|l| l.get().to_string()).collect();
        labels.sort();
        out_funcs.push(FuncSnap {
            entry: idx_of(&f.entry()),
            exit: idx_of(&f.exit()),
            nodes: f.nodes().iter().map(&idx_of).collect(),
            labels,
            defs: f.defs().to_string(),
        });
    }
    let mut fn_by_label: Vec<(String, usize)> = fmap.iter().map(|(k, f)| (k.get().to_string(), fidx_of(f))).collect();
    fn_by_label.sort();

    Snap { nodes: out_nodes, funcs: out_funcs, fn_key_order, fn_by_label }
}

impl Snap {
    /// First difference between two snapshots, as text (None if equal).
    pub fn diff(&self, other: &Snap) -> Option<String> {
        if self.nodes.len() != other.nodes.len() {
            return Some(format!("node count {} vs {}", self.nodes.len(), other.nodes.len()));
        }
        for (i, (a, b)) in self.nodes.iter().zip(&other.nodes).enumerate() {
            if a == b {
                continue;
            }
            let at = format!("node {i} `{}` ({}:{})", a.text, a.file, a.line + 1);
            if a.nexts != b.nexts {
                return Some(format!("edges: nexts of {at}: {:?} vs {:?}", a.nexts, b.nexts));
            }
            if a.prevs != b.prevs {
                return Some(format!("edges: prevs of {at}: {:?} vs {:?}", a.prevs, b.prevs));
            }
            for (k, name) in FACT_NAMES.iter().enumerate() {
                if a.facts[k] != b.facts[k] {
                    return Some(format!("fact {name} of {at}: [{}] vs [{}]", a.facts[k], b.facts[k]));
                }
            }
            if a.funcs != b.funcs {
                return Some(format!("functions of {at}: {:?} vs {:?}", a.funcs, b.funcs));
            }
            return Some(format!("node data of {at}: {a:?} vs {b:?}"));
        }
        if self.funcs != other.funcs {
            for (i, (a, b)) in self.funcs.iter().zip(&other.funcs).enumerate() {
                if a.exit != b.exit {
                    return Some(format!("function exit of function {i} {:?}: node {} vs {}", a.labels, a.exit, b.exit));
                }
                if a != b {
                    return Some(format!("function {i} {:?}: {a:?} vs {b:?}", a.labels));
                }
            }
            return Some("function list length".into());
        }
        if self.fn_by_label != other.fn_by_label {
            return Some("label->function map".into());
        }
        None
    }

    /// Which clause of a difference: "edges", "fact <name>", "functions", "function exit", ...
    pub fn diff_clause(d: &str) -> String {
        if let Some(rest) = d.strip_prefix("fact ") {
            return format!("fact {}", rest.split(' ').next().unwrap_or(""));
        }
        d.split([':', ' ']).next().unwrap_or("").to_string()
    }
}
