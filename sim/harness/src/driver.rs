//! Batch driver (DESIGN.md §2.6): forks worker processes over slices of run indices, isolates a
//! crashing run, minimises and reports violations, matches known findings, writes evidence.

use crate::minimise::Minimiser;
use crate::props;
use crate::rng::{hash_str, mix};
use crate::scenario::{Scenario, Stats, Tier, Violation};
use serde::{Deserialize, Serialize};
use std::collections::BTreeMap;
use std::io::{BufRead, BufReader, Write};
use std::path::PathBuf;
use std::process::{Command, Stdio};
use std::time::Instant;

pub fn verif_home() -> PathBuf {
    std::env::var("VERIF_HOME").map_or_else(|_| PathBuf::from("/verif"), PathBuf::from)
}

pub fn run_seed(master: u64, prop: &str, i: u64) -> u64 {
    mix(&[master, hash_str(prop), i])
}

#[derive(Clone, Debug, Serialize, Deserialize)]
pub struct Found {
    pub run_index: u64,
    pub run_seed: u64,
    pub violation: Violation,
    pub scenario: Scenario,
    pub minimised: bool,
    pub minimise_checks: usize,
    pub original_lines: usize,
    pub minimised_lines: usize,
}

#[derive(Clone, Debug, Serialize, Deserialize)]
pub enum WorkerMsg {
    Found(Box<Found>),
    Done {
        runs: u64,
        stats: Stats,
        /// (run index, digest of scenario + observations) — the event log of the determinism proof
        #[serde(default)]
        digests: Vec<(u64, u64)>,
    },
}

#[derive(Clone, Debug, Serialize, Deserialize)]
pub struct ReplayFile {
    pub property: String,
    pub verif_seed: u64,
    pub run_index: u64,
    pub run_seed: u64,
    pub violation: Violation,
    pub minimised: bool,
    pub scenario: Scenario,
    pub how_to_replay: String,
}

#[derive(Clone, Debug, Serialize, Deserialize, Default)]
pub struct KnownFindings {
    #[serde(default)]
    pub findings: Vec<KnownFinding>,
    #[serde(default)]
    pub fixed: Vec<String>,
}

#[derive(Clone, Debug, Serialize, Deserialize)]
pub struct KnownFinding {
    pub id: String,
    pub property: String,
    /// the violation class must start with this
    pub class_prefix: String,
    /// every (feature, value) listed must hold on the violation
    #[serde(default)]
    pub requires: BTreeMap<String, String>,
    pub what_fails: String,
    #[serde(default)]
    pub example: String,
}

impl KnownFindings {
    pub fn load() -> KnownFindings {
        let p = verif_home().join("known_findings.json");
        match std::fs::read_to_string(&p) {
            Ok(t) => serde_json::from_str(&t).unwrap_or_else(|e| {
                eprintln!("HARNESS ERROR: {} does not parse: {e}", p.display());
                std::process::exit(2);
            }),
            Err(_) => KnownFindings::default(),
        }
    }
    pub fn matching(&self, v: &Violation) -> Option<&KnownFinding> {
        self.findings.iter().find(|k| {
            k.property == v.property && v.class.starts_with(&k.class_prefix) && k.requires.iter().all(|(f, val)| v.features.get(f) == Some(val))
        })
    }
}

pub struct Budget {
    pub runs: u64,
    pub max_wall_s: u64,
}

pub fn budget(prop: &str, tier: Tier) -> Budget {
    let (q, t) = match prop {
        "C10" => (4_000, 250_000),
        "C18" => (2_400, 90_000),
        "C15" => (12_000, 900_000),
        "C06" => (20_000, 1_500_000),
        "C12" => (8_000, 350_000),
        "C11" => (12_000, 600_000),
        "C03" => (12_000, 700_000),
        _ => (1000, 50_000),
    };
    match tier {
        Tier::Quick => Budget { runs: q, max_wall_s: 75 },
        Tier::Thorough => Budget { runs: t, max_wall_s: 840 },
    }
}

/// Worker: runs indices start..end, prints one JSON line per message.
pub fn worker(prop: &str, tier: Tier, master: u64, start: u64, end: u64, deadline_s: u64) {
    let t0 = Instant::now();
    let mut stats = Stats::default();
    let mut runs = 0;
    let out = std::io::stdout();
    let mut classes_seen: Vec<String> = Vec::new();
    let mut digests: Vec<(u64, u64)> = Vec::new();
    let want_digests = std::env::var("VERIF_DIGESTS").is_ok();
    for i in start..end {
        if t0.elapsed().as_secs() >= deadline_s {
            break;
        }
        let seed = run_seed(master, prop, i);
        let scn = props::generate(prop, seed, tier, i);
        stats.inc(&format!("reader:{:?}", scn.personality));
        let mut st = Stats::default();
        let vs = props::check(&scn, &mut st);
        if want_digests {
            // digest of everything the run produced: its scenario, its violations and its own counters
            let text = format!("{}|{}|{}", serde_json::to_string(&scn).unwrap_or_default(), serde_json::to_string(&vs).unwrap_or_default(), serde_json::to_string(&st).unwrap_or_default());
            if let Ok(d) = std::env::var("VERIF_DIGEST_DUMP") {
                let _ = std::fs::write(format!("{d}/{i}-{start}.txt"), &text);
            }
            digests.push((i, crate::rng::hash_str(&text)));
        }
        for k in st.counters.keys().filter(|k| k.starts_with("level:")) {
            st.first_seen.entry(k.clone()).or_insert(i);
        }
        stats.merge(st);
        runs += 1;
        for v in vs {
            stats.inc("violations_raw");
            // one report per class per worker; minimise the first
            if classes_seen.contains(&v.class) {
                continue;
            }
            classes_seen.push(v.class.clone());
            let orig_lines: usize = scn.world.files.values().map(|t| t.lines().count()).sum();
            let f = Found { run_index: i, run_seed: seed, violation: v.clone(), scenario: scn.clone(), minimised: false, minimise_checks: 0, original_lines: orig_lines, minimised_lines: orig_lines };
            let mut o = out.lock();
            let _ = writeln!(o, "{}", serde_json::to_string(&WorkerMsg::Found(Box::new(f))).unwrap_or_default());
            let _ = o.flush();
        }
    }
    let mut o = out.lock();
    let _ = writeln!(o, "{}", serde_json::to_string(&WorkerMsg::Done { runs, stats, digests }).unwrap_or_default());
    let _ = o.flush();
}

struct SliceResult {
    found: Vec<Found>,
    done: Option<(u64, Stats)>,
    died: Option<String>,
    digests: Vec<(u64, u64)>,
}

/// CPU seconds a worker may burn per run of its slice before it is presumed to spin in a loop that
/// has no tick site (the deterministic tick budget catches the loops that have one much earlier).
const CPU_PER_SLICE_QUICK_S: u64 = 30;
const CPU_PER_SLICE_THOROUGH_S: u64 = 150;

fn spawn_slice(prop: &str, tier: Tier, master: u64, start: u64, end: u64, deadline_s: u64) -> std::io::Result<std::process::Child> {
    use std::os::unix::process::CommandExt;
    let exe = std::env::current_exe()?;
    let cpu = if tier == Tier::Quick { CPU_PER_SLICE_QUICK_S } else { CPU_PER_SLICE_THOROUGH_S };
    let mut cmd = Command::new(exe);
    cmd.args(["worker", prop, tier.name(), &master.to_string(), &start.to_string(), &end.to_string(), &deadline_s.to_string()])
        .stdin(Stdio::null())
        .stdout(Stdio::piped())
        .stderr(Stdio::inherit());
    unsafe {
        cmd.pre_exec(move || {
            let lim = |res, v: u64| {
                let r = libc::rlimit { rlim_cur: v, rlim_max: v };
                libc::setrlimit(res, &r);
            };
            lim(libc::RLIMIT_CPU, cpu);
            lim(libc::RLIMIT_AS, 3 << 30);
            lim(libc::RLIMIT_CORE, 0);
            Ok(())
        });
    }
    cmd.spawn()
}

fn collect(mut child: std::process::Child) -> SliceResult {
    let mut res = SliceResult { found: vec![], done: None, died: None, digests: vec![] };
    if let Some(so) = child.stdout.take() {
        for line in BufReader::new(so).lines().map_while(Result::ok) {
            match serde_json::from_str::<WorkerMsg>(&line) {
                Ok(WorkerMsg::Found(f)) => res.found.push(*f),
                Ok(WorkerMsg::Done { runs, stats, digests }) => {
                    res.done = Some((runs, stats));
                    res.digests = digests;
                }
                Err(_) => {}
            }
        }
    }
    match child.wait() {
        Ok(st) if st.success() => {}
        Ok(st) => res.died = Some(format!("{st}")),
        Err(e) => res.died = Some(e.to_string()),
    }
    res
}

#[allow(clippy::too_many_arguments)]
fn run_pool(slices: &[(u64, u64)], opts: &CheckOpts, w: u64, max_wall: u64, t0: Instant, found: &mut Vec<Found>, executed: &mut u64, total: &mut Stats, crashed: &mut Vec<(u64, u64, String)>) {
    use std::sync::{Arc, Mutex};
    let queue = Arc::new(Mutex::new(slices.to_vec().into_iter()));
    type Out = Vec<(u64, u64, SliceResult)>;
    let results: Arc<Mutex<Out>> = Arc::new(Mutex::new(Vec::new()));
    let mut handles = Vec::new();
    for _ in 0..w {
        let queue = Arc::clone(&queue);
        let results = Arc::clone(&results);
        let prop = opts.prop.clone();
        let (tier, master) = (opts.tier, opts.master);
        handles.push(std::thread::spawn(move || loop {
            let next = queue.lock().ok().and_then(|mut q| q.next());
            let Some((a, e)) = next else { break };
            let remaining = max_wall.saturating_sub(t0.elapsed().as_secs());
            if remaining == 0 {
                break;
            }
            let r = match spawn_slice(&prop, tier, master, a, e, remaining.min(100_000)) {
                Ok(child) => collect(child),
                Err(err) => SliceResult { found: vec![], done: None, died: Some(err.to_string()), digests: vec![] },
            };
            if let Ok(mut g) = results.lock() {
                g.push((a, e, r));
            }
        }));
    }
    for h in handles {
        let _ = h.join();
    }
    let mut res = std::mem::take(&mut *results.lock().unwrap_or_else(std::sync::PoisonError::into_inner));
    res.sort_by_key(|(a, _, _)| *a);
    for (a, e, r) in res {
        found.extend(r.found);
        if let Some((n, st)) = r.done {
            *executed += n;
            total.merge(st);
        }
        if let Some(why) = r.died {
            crashed.push((a, e, why));
        }
    }
}

fn sanitize(s: &str) -> String {
    s.chars().map(|c| if c.is_ascii_alphanumeric() || c == '-' || c == '_' { c } else { '_' }).collect::<String>().chars().take(80).collect()
}

pub struct CheckOpts {
    pub prop: String,
    pub tier: Tier,
    pub master: u64,
    pub runs: Option<u64>,
    pub workers: usize,
    pub max_wall_s: Option<u64>,
}

pub fn level_of(prop: &str) -> &'static str {
    match prop {
        "C06" | "C15" => "fault_enumeration",
        _ => "exploration",
    }
}

/// Returns the process exit code.
pub fn check(opts: &CheckOpts) -> i32 {
    let t0 = Instant::now();
    let b = budget(&opts.prop, opts.tier);
    let runs = opts.runs.unwrap_or(b.runs);
    let max_wall = opts.max_wall_s.unwrap_or(b.max_wall_s);
    let w = opts.workers.max(1) as u64;
    // interleaved slices would balance better, but contiguous slices keep "run i" independent of W
    // either way; use many small slices handed out round-robin to even out the load.
    // C18 keeps a per-process table "severity of each diagnostic kind": longer slices let one
    // process see more programs (its runs are cheap for the worker itself: the work is in children)
    let slice = if opts.prop == "C18" { (runs / (w * 2)).clamp(1, 64) } else { (runs / (w * 16)).clamp(1, 8) };
    let mut slices: Vec<(u64, u64)> = Vec::new();
    let mut s = 0;
    while s < runs {
        slices.push((s, (s + slice).min(runs)));
        s += slice;
    }
    let mut total = Stats::default();
    let mut executed = 0u64;
    let mut found: Vec<Found> = Vec::new();
    let mut crashed_slices: Vec<(u64, u64, String)> = Vec::new();
    run_pool(&slices, opts, w, max_wall, t0, &mut found, &mut executed, &mut total, &mut crashed_slices);
    // C18: a diagnostic kind seen with two severities in two different runs
    {
        let mut by_kind: BTreeMap<String, Vec<(String, u64)>> = BTreeMap::new();
        for (k, i) in &total.first_seen {
            if let Some((kind, level)) = k.strip_prefix("level:").and_then(|r| r.rsplit_once('=')) {
                by_kind.entry(kind.to_string()).or_default().push((level.to_string(), *i));
            }
        }
        for (kind, mut v) in by_kind {
            if v.len() < 2 {
                continue;
            }
            v.sort_by_key(|x| x.1);
            let (lvl_a, _) = v[0].clone();
            let (_, i_b) = v[1].clone();
            let seed = run_seed(opts.master, &opts.prop, i_b);
            let mut scn = props::generate(&opts.prop, seed, opts.tier, i_b);
            scn.expected_levels.insert(kind.clone(), lvl_a);
            let mut st = Stats::default();
            if let Some(vio) = props::check(&scn, &mut st).into_iter().find(|x| x.class.starts_with("severity-not-fixed")) {
                let lines_n: usize = scn.world.files.values().map(|t| t.lines().count()).sum();
                found.push(Found { run_index: i_b, run_seed: seed, violation: vio, scenario: scn, minimised: false, minimise_checks: 0, original_lines: lines_n, minimised_lines: lines_n });
            }
        }
    }
    eprintln!("[driver] run phase done at {:.1}s: {} runs, {} found", t0.elapsed().as_secs_f64(), executed, found.len());
    // isolate crashing runs: one run per process
    let mut harness_crashes: Vec<(u64, String)> = Vec::new();
    if !crashed_slices.is_empty() {
        let mut singles: Vec<(u64, u64)> = Vec::new();
        for (a, e, why) in &crashed_slices {
            eprintln!("worker for runs {a}..{e} died ({why}); isolating");
            singles.extend((*a..*e).map(|i| (i, i + 1)));
        }
        let mut died: Vec<(u64, u64, String)> = Vec::new();
        // isolation is not cut short by the batch deadline
        run_pool(&singles, opts, w, u64::MAX / 4, t0, &mut found, &mut executed, &mut total, &mut died);
        harness_crashes.extend(died.into_iter().map(|(a, _, why)| (a, why)));
        harness_crashes.sort();
        harness_crashes.truncate(8);
    }

    // report
    let kf = KnownFindings::load();
    let home = verif_home();
    let rdir = home.join("replays").join(&opts.prop);
    let _ = std::fs::create_dir_all(&rdir);
    found.sort_by(|a, b| (a.violation.class.as_str(), a.run_index).cmp(&(b.violation.class.as_str(), b.run_index)));
    let mut reported: Vec<String> = Vec::new();
    let mut new_violations = 0;
    let mut known_hits: BTreeMap<String, u64> = BTreeMap::new();
    let mut lines: Vec<String> = Vec::new();
    let mut fresh: Vec<Found> = Vec::new();
    for f in &found {
        if let Some(k) = kf.matching(&f.violation) {
            *known_hits.entry(k.id.clone()).or_insert(0) += 1;
            continue;
        }
        if reported.contains(&f.violation.class) {
            continue;
        }
        reported.push(f.violation.class.clone());
        fresh.push(f.clone());
    }
    // minimise (in parallel, wall-capped) what is going to be reported; prefer the smallest original
    let fresh: Vec<Found> = {
        let handles: Vec<_> = fresh
            .into_iter()
            .enumerate()
            .map(|(n, f)| {
                std::thread::spawn(move || {
                    if n >= 6 {
                        return f;
                    }
                    minimise_found(f, &KnownFindings::load())
                })
            })
            .collect();
        handles.into_iter().filter_map(|h| h.join().ok()).collect()
    };
    eprintln!("[driver] minimisation done at {:.1}s", t0.elapsed().as_secs_f64());
    for f in &fresh {
        new_violations += 1;
        let name = format!("{}-{}.json", sanitize(&f.violation.class), f.run_index);
        let path = rdir.join(name);
        let rf = ReplayFile {
            property: opts.prop.clone(),
            verif_seed: opts.master,
            run_index: f.run_index,
            run_seed: f.run_seed,
            violation: f.violation.clone(),
            minimised: f.minimised,
            scenario: f.scenario.clone(),
            how_to_replay: format!("/verif/check {} --replay {}", opts.prop, path.display()),
        };
        let _ = std::fs::write(&path, serde_json::to_string_pretty(&rf).unwrap_or_default());
        // the replay file must reproduce in a fresh process; if the minimised scenario does not,
        // fall back to the scenario as it was found
        if !replays_in_fresh_process(&path) && f.minimised {
            if let Some(orig) = found.iter().find(|o| o.run_index == f.run_index && o.violation.class == f.violation.class && !o.minimised) {
                let rf2 = ReplayFile { violation: orig.violation.clone(), minimised: false, scenario: orig.scenario.clone(), ..rf };
                let _ = std::fs::write(&path, serde_json::to_string_pretty(&rf2).unwrap_or_default());
                eprintln!("  (the minimised scenario did not reproduce in a fresh process; the replay file holds the scenario as found)");
            }
            if !replays_in_fresh_process(&path) {
                eprintln!("HARNESS WARNING: {} does not reproduce in a fresh process", path.display());
            }
        }
        lines.push(format!("VIOLATION property={} replay={}", opts.prop, path.display()));
        eprintln!(
            "  class={} clause={} run={} (lines {} -> {}, {} minimiser checks)\n  {}",
            f.violation.class, f.violation.clause, f.run_index, f.original_lines, f.minimised_lines, f.minimise_checks, f.violation.detail
        );
    }
    for (i, why) in &harness_crashes {
        // a run that kills the worker even alone: the analyzer took the process down (stack overflow, abort)
        new_violations += 1;
        let seed = run_seed(opts.master, &opts.prop, *i);
        let scn = props::generate(&opts.prop, seed, opts.tier, *i);
        let path = rdir.join(format!("process-death-{i}.json"));
        let rf = ReplayFile {
            property: opts.prop.clone(),
            verif_seed: opts.master,
            run_index: *i,
            run_seed: seed,
            violation: Violation {
                property: opts.prop.clone(),
                clause: "process-death".into(),
                class: format!("process-death:{}", if why.contains("signal: 9") || why.contains("signal: 24") { "cpu-limit (loop without progress)".to_string() } else if why.contains("signal: 6") { "abort (allocation failure or stack overflow)".to_string() } else { why.clone() }),
                detail: format!("the in-process run took its worker process down, alone in a fresh process: {why}"),
                features: BTreeMap::new(),
            },
            minimised: false,
            scenario: scn,
            how_to_replay: format!("/verif/check {} --replay {}", opts.prop, path.display()),
        };
        let _ = std::fs::write(&path, serde_json::to_string_pretty(&rf).unwrap_or_default());
        lines.push(format!("VIOLATION property={} replay={}", opts.prop, path.display()));
    }
    for k in &kf.findings {
        if k.property == opts.prop {
            println!("KNOWN-FINDING: property={} {} [{}; matched {} time(s) in this run]", k.property, k.what_fails, k.id, known_hits.get(&k.id).copied().unwrap_or(0));
        }
    }
    for l in &lines {
        println!("{l}");
    }

    // evidence
    let wall = t0.elapsed().as_secs_f64();
    let evaluations = total.counters.get("t1_incarnations").copied().unwrap_or(0) + total.counters.get("t2_runs").copied().unwrap_or(0);
    let faults: BTreeMap<&String, &u64> = total.counters.iter().filter(|(k, _)| k.starts_with("fault:")).collect();
    let probes: BTreeMap<&String, &u64> = total.counters.iter().filter(|(k, _)| k.starts_with("probe:")).collect();
    let ticks: BTreeMap<&String, &u64> = total.counters.iter().filter(|(k, _)| k.starts_with("ticks:")).collect();
    let ev = serde_json::json!({
        "property_id": opts.prop,
        "tier": opts.tier.name(),
        "seed": opts.master,
        "level": level_of(&opts.prop),
        "coverage": {
            "evaluations": evaluations,
            "distinct_nontrivial": total.nontrivial_worlds.len(),
            "rule": props::rule(&opts.prop),
            "samples": total.samples,
            "simulated_runs": executed,
            "runs_planned": runs,
            "runs_per_hour": if wall > 0.0 { (executed as f64 / wall * 3600.0) as u64 } else { 0 },
            "distinct_worlds": total.worlds.len(),
            "distinct_order_signatures": total.signatures.len(),
            "t1_incarnations": total.counters.get("t1_incarnations").copied().unwrap_or(0),
            "t2_process_runs": total.counters.get("t2_runs").copied().unwrap_or(0),
            "simulated_time_logical_steps": ticks,
            "imports": total.counters.get("imports").copied().unwrap_or(0),
            "faults_fired": faults,
            "probes": probes,
            "counters": total.counters,
            "known_findings_matched": known_hits,
            "real_components": props::real_components(&opts.prop),
            "stub_components": ["SimReader (in-memory FileReader)", "entropy source (getrandom symbol)", "libc open/read/close/realpath under the sandbox root (T2, pass-through unless planned)"],
            "not_run": ["riscv_analysis_lsp (wasm-only entry point)"],
            "workers": w,
        },
        "assumptions": props::assumptions(&opts.prop),
        "wall_s": wall,
        "violations": new_violations,
    });
    let edir = home.join("evidence");
    let _ = std::fs::create_dir_all(&edir);
    let _ = std::fs::write(edir.join(format!("{}.json", opts.prop)), serde_json::to_string_pretty(&ev).unwrap_or_default());
    eprintln!(
        "{} {}: {} runs, {} evaluations, {} distinct non-trivial worlds, {} new violation class(es), {:.1}s",
        opts.prop,
        opts.tier.name(),
        executed,
        evaluations,
        total.nontrivial_worlds.len(),
        new_violations,
        wall
    );
    if executed == 0 {
        eprintln!("HARNESS ERROR: no run executed");
        return 2;
    }
    i32::from(new_violations > 0)
}

fn replays_in_fresh_process(path: &std::path::Path) -> bool {
    let Ok(exe) = std::env::current_exe() else { return true };
    match Command::new(exe).arg("replay").arg(path).stdin(Stdio::null()).stderr(Stdio::null()).output() {
        Ok(o) => String::from_utf8_lossy(&o.stdout).contains("REPRODUCED class=") && !String::from_utf8_lossy(&o.stdout).contains("NOT REPRODUCED"),
        Err(_) => true,
    }
}

fn minimise_found(f: Found, kf: &KnownFindings) -> Found {
    let tm = Instant::now();
    let mut m = Minimiser::new(&f.violation.class, 400, 25);
    let small = m.run(&f.scenario);
    eprintln!("[minimise] {} : {} checks in {:.1}s", f.violation.class, m.checks, tm.elapsed().as_secs_f64());
    let mut st = Stats::default();
    let v2 = props::check(&small, &mut st).into_iter().find(|x| x.class == f.violation.class);
    match v2 {
        // never let minimisation turn a new violation into a known one (or the reverse)
        Some(v2) if kf.matching(&v2).is_none() => {
            let min_lines: usize = small.world.files.values().map(|t| t.lines().count()).sum();
            Found { violation: v2, scenario: small, minimised: true, minimise_checks: m.checks, minimised_lines: min_lines, ..f }
        }
        _ => f,
    }
}

/// Determinism proof (DESIGN.md §8): run the same run indices in separate processes with different
/// slice layouts / worker counts and compare the per-run digests.
pub fn determinism(prop: &str, tier: Tier, master: u64, runs: u64) -> i32 {
    std::env::set_var("VERIF_DIGESTS", "1");
    let layouts: [(u64, u64); 3] = [(1, 64), (4, 7), (16, 3)];
    let mut all: Vec<std::collections::BTreeMap<u64, u64>> = Vec::new();
    for (workers, slice) in layouts {
        let mut slices = Vec::new();
        let mut s = 0;
        while s < runs {
            slices.push((s, (s + slice).min(runs)));
            s += slice;
        }
        let queue = std::sync::Arc::new(std::sync::Mutex::new(slices.into_iter()));
        let out: std::sync::Arc<std::sync::Mutex<std::collections::BTreeMap<u64, u64>>> = Default::default();
        let mut hs = Vec::new();
        for _ in 0..workers {
            let (queue, out, prop) = (queue.clone(), out.clone(), prop.to_string());
            hs.push(std::thread::spawn(move || loop {
                let next = queue.lock().ok().and_then(|mut q| q.next());
                let Some((a, e)) = next else { break };
                if let Ok(child) = spawn_slice(&prop, tier, master, a, e, 100_000) {
                    let r = collect(child);
                    if let Ok(mut g) = out.lock() {
                        g.extend(r.digests);
                    }
                }
            }));
        }
        for h in hs {
            let _ = h.join();
        }
        let m = out.lock().map(|g| g.clone()).unwrap_or_default();
        println!("layout workers={workers} slice={slice}: {} digests", m.len());
        all.push(m);
    }
    let mut diverged = 0;
    for i in 0..runs {
        let vals: Vec<Option<&u64>> = all.iter().map(|m| m.get(&i)).collect();
        if vals.iter().any(|v| v.is_none()) || vals.windows(2).any(|w| w[0] != w[1]) {
            diverged += 1;
            if diverged <= 5 {
                println!("run {i} diverges: {vals:?}");
            }
        }
    }
    println!("determinism {prop}: {runs} run indices x {} layouts, {diverged} divergent", all.len());
    if diverged > 0 {
        2
    } else {
        0
    }
}

/// Minimise the scenario of a replay file further (longer budget), writing `<file>.min.json`.
pub fn minimise_file(path: &str, wall_s: u64) -> i32 {
    let Ok(text) = std::fs::read_to_string(path) else { return 2 };
    let Ok(mut rf) = serde_json::from_str::<ReplayFile>(&text) else { return 2 };
    let class = rf.violation.class.clone();
    let mut m = Minimiser::new(&class, 100_000, wall_s);
    let small = m.run(&rf.scenario);
    let mut st = Stats::default();
    if let Some(v) = props::check(&small, &mut st).into_iter().find(|x| x.class == class) {
        rf.violation = v;
        rf.scenario = small;
        rf.minimised = true;
    }
    let out = format!("{path}.min.json");
    let _ = std::fs::write(&out, serde_json::to_string_pretty(&rf).unwrap_or_default());
    println!("{} checks; wrote {out}; {} lines", m.checks, rf.scenario.world.files.values().map(|t| t.lines().count()).sum::<usize>());
    0
}

/// Replay one file in this (fresh) process.
pub fn replay(path: &str) -> i32 {
    let text = match std::fs::read_to_string(path) {
        Ok(t) => t,
        Err(e) => {
            eprintln!("HARNESS ERROR: cannot read {path}: {e}");
            return 2;
        }
    };
    let rf: ReplayFile = match serde_json::from_str(&text) {
        Ok(r) => r,
        Err(e) => {
            eprintln!("HARNESS ERROR: {path} is not a replay file: {e}");
            return 2;
        }
    };
    let mut st = Stats::default();
    let vs = props::check(&rf.scenario, &mut st);
    let kf = KnownFindings::load();
    let same: Vec<&Violation> = vs.iter().filter(|v| v.class == rf.violation.class).collect();
    for v in &vs {
        eprintln!("  observed class={} clause={}\n    {}", v.class, v.clause, v.detail);
    }
    if let Some(v) = same.first() {
        if let Some(k) = kf.matching(v) {
            println!("KNOWN-FINDING: property={} {} [{}]", k.property, k.what_fails, k.id);
            println!("REPRODUCED class={} (known finding)", v.class);
            return 0;
        }
        println!("REPRODUCED class={}", v.class);
        println!("VIOLATION property={} replay={}", rf.property, path);
        1
    } else {
        println!("NOT REPRODUCED (expected class {})", rf.violation.class);
        if vs.is_empty() {
            0
        } else {
            println!("VIOLATION property={} replay={}", rf.property, path);
            1
        }
    }
}
