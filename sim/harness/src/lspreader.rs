//! The editor integration's reader, real code: `riscv_analysis_lsp/src/lsp/mod.rs` is a private
//! module of a crate whose entry points only work on wasm32, so it is compiled into the harness by
//! path. `LSPFileReader` (one UUID per document, lookup by URI, no cycle detection of its own) then
//! serves as a fourth reader next to SimReader's three personalities.
#![allow(dead_code, unused_imports, clippy::all, clippy::pedantic)]

#[path = "/repo/riscv_analysis_lsp/src/lsp/mod.rs"]
mod lsp;

pub use lsp::LSPFileReader;
use riscv_analysis::parser::RVDocument;

pub const ROOT: &str = "file:///simroot/";

/// Documents of a world, base file first (the reader takes the first document as the base file).
pub fn documents(world: &crate::world::World) -> Vec<RVDocument> {
    let mut docs = Vec::new();
    if let Some(t) = world.files.get(&world.base) {
        docs.push(RVDocument { uri: format!("{ROOT}{}", world.base), text: t.clone() });
    }
    for (p, t) in &world.files {
        if *p != world.base {
            docs.push(RVDocument { uri: format!("{ROOT}{p}"), text: t.clone() });
        }
    }
    docs
}

pub fn base_uri(world: &crate::world::World) -> String {
    format!("{ROOT}{}", world.base)
}

pub fn strip_root(uri: &str) -> String {
    uri.strip_prefix(ROOT).unwrap_or(uri).to_string()
}
