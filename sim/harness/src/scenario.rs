//! Explicit scenarios (DESIGN.md §2.1, §7.2): everything a run depends on, in a form that can be
//! minimised and replayed without any PRNG.

use crate::lint::PassOp;
use crate::reader::{Personality, ReaderFault};
use crate::world::World;
use serde::{Deserialize, Serialize};
use std::collections::{BTreeMap, BTreeSet};

#[derive(Clone, Debug, Serialize, Deserialize, PartialEq, Eq)]
pub struct T2Spec {
    /// each entry: CLI flags after `lint` (the base path is appended by the runner)
    pub modes: Vec<Vec<String>>,
    /// `VERIF_FAULT_PLAN` entries (paths relative to the sandbox root are written as `@/path`)
    pub plan: Vec<String>,
    /// "dev" (checks on) or "release"
    pub profile: String,
    /// force colour (CLICOLOR_FORCE=1) for modes without --no-color
    pub force_color: bool,
    /// the base file is given to the CLI under this name (bytes as hex, not necessarily UTF-8): a
    /// copy of the base file is put next to it under that name first
    #[serde(default, skip_serializing_if = "Option::is_none")]
    pub raw_base_name: Option<String>,
    /// standard output of the CLI cannot be written to: "full" (ENOSPC on every write, as on a full
    /// disk) or "closed" (the reader of the pipe has gone away: EPIPE)
    #[serde(default, skip_serializing_if = "Option::is_none")]
    pub stdout_fault: Option<String>,
}

#[derive(Clone, Debug, Serialize, Deserialize)]
pub struct Scenario {
    pub property: String,
    /// which sub-check of the property this scenario drives (e.g. "t1", "t2", "t1-faults")
    pub variant: String,
    pub world: World,
    pub personality: Personality,
    pub reader_faults: Vec<ReaderFault>,
    /// entropy seeds = schedules to run
    pub entropy: Vec<u64>,
    pub history: Vec<PassOp>,
    pub t2: Option<T2Spec>,
    /// content faults already applied to the world, for the record: (kind, path)
    #[serde(default)]
    pub content_faults: Vec<(String, String)>,
    /// free-form description of the swarm configuration that produced it
    pub note: String,
    /// C18: severities already seen for diagnostic kinds in *other* runs of the batch (filled in by
    /// the driver when two runs disagree, so that the conflict replays from one file)
    #[serde(default, skip_serializing_if = "BTreeMap::is_empty")]
    pub expected_levels: BTreeMap<String, String>,
}

#[derive(Clone, Debug, Serialize, Deserialize)]
pub struct Violation {
    pub property: String,
    /// oracle clause, e.g. "a:sequence-differs", "b:duplicate", "I1:inverse"
    pub clause: String,
    /// class = clause + discriminating features (DESIGN.md §7.3)
    pub class: String,
    pub detail: String,
    /// named facts about the scenario used by known-finding predicates
    #[serde(default)]
    pub features: BTreeMap<String, String>,
}

#[derive(Clone, Debug, Serialize, Deserialize, Default)]
pub struct Stats {
    pub counters: BTreeMap<String, u64>,
    /// hashes of worlds that count as non-trivial by the property's rule
    pub nontrivial_worlds: BTreeSet<u64>,
    pub worlds: BTreeSet<u64>,
    pub signatures: BTreeSet<u64>,
    pub samples: Vec<serde_json::Value>,
    /// first run index at which a counter key of the form `level:<kind>=<level>` was seen
    #[serde(default)]
    pub first_seen: BTreeMap<String, u64>,
}

impl Stats {
    pub fn add(&mut self, k: &str, n: u64) {
        *self.counters.entry(k.to_string()).or_insert(0) += n;
    }
    pub fn inc(&mut self, k: &str) {
        self.add(k, 1);
    }
    pub fn merge(&mut self, o: Stats) {
        for (k, v) in o.counters {
            *self.counters.entry(k).or_insert(0) += v;
        }
        self.nontrivial_worlds.extend(o.nontrivial_worlds);
        self.worlds.extend(o.worlds);
        self.signatures.extend(o.signatures);
        for (k, v) in o.first_seen {
            let e = self.first_seen.entry(k).or_insert(v);
            *e = (*e).min(v);
        }
        for s in o.samples {
            if self.samples.len() < 6 {
                self.samples.push(s);
            }
        }
    }
}

#[derive(Clone, Copy, Debug, PartialEq, Eq)]
pub enum Tier {
    Quick,
    Thorough,
}

impl Tier {
    pub fn name(self) -> &'static str {
        match self {
            Tier::Quick => "quick",
            Tier::Thorough => "thorough",
        }
    }
}
