//! T2: the real `rva` process on a sandbox directory under `libsimworld.so` (DESIGN.md §2.4, §2.6).

use crate::world::{Special, World};
use std::io::Read;
use std::os::unix::process::{CommandExt, ExitStatusExt};
use std::path::{Path, PathBuf};
use std::process::{Command, Stdio};
use std::sync::atomic::{AtomicU64, Ordering};

static SANDBOX_N: AtomicU64 = AtomicU64::new(0);

pub fn tmp_base() -> PathBuf {
    if let Ok(t) = std::env::var("VERIF_TMP") {
        return PathBuf::from(t);
    }
    if Path::new("/dev/shm").is_dir() {
        return PathBuf::from("/dev/shm");
    }
    PathBuf::from("/verif/run")
}

pub struct Sandbox {
    pub dir: PathBuf,
}

impl Sandbox {
    pub fn new(world: &World) -> std::io::Result<Sandbox> {
        let n = SANDBOX_N.fetch_add(1, Ordering::Relaxed);
        let dir = tmp_base().join(format!("vsim-{}-{}", std::process::id(), n));
        let _ = std::fs::remove_dir_all(&dir);
        std::fs::create_dir_all(&dir)?;
        let sb = Sandbox { dir };
        sb.write(world)?;
        Ok(sb)
    }
    fn write(&self, world: &World) -> std::io::Result<()> {
        for (p, t) in &world.files {
            if world.special.contains_key(p) {
                continue;
            }
            let full = self.dir.join(p);
            if let Some(parent) = full.parent() {
                std::fs::create_dir_all(parent)?;
            }
            match world.binary.get(p) {
                Some(hex) => std::fs::write(&full, unhex(hex))?,
                None => std::fs::write(&full, t.as_bytes())?,
            }
        }
        for (p, hex) in &world.binary {
            if !world.files.contains_key(p) {
                let full = self.dir.join(p);
                if let Some(parent) = full.parent() {
                    std::fs::create_dir_all(parent)?;
                }
                std::fs::write(&full, unhex(hex))?;
            }
        }
        for (p, s) in &world.special {
            let full = self.dir.join(p);
            if let Some(parent) = full.parent() {
                std::fs::create_dir_all(parent)?;
            }
            match s {
                Special::Dir => std::fs::create_dir_all(&full)?,
                Special::Symlink(t) => std::os::unix::fs::symlink(t, &full)?,
                Special::Fifo => {
                    use std::os::unix::ffi::OsStrExt;
                    let c = std::ffi::CString::new(full.as_os_str().as_bytes()).map_err(|_| std::io::Error::other("nul in path"))?;
                    if unsafe { libc::mkfifo(c.as_ptr(), 0o600) } != 0 {
                        return Err(std::io::Error::last_os_error());
                    }
                }
            }
        }
        Ok(())
    }
    pub fn root_str(&self) -> String {
        self.dir.to_string_lossy().to_string()
    }
}

impl Drop for Sandbox {
    fn drop(&mut self) {
        let _ = std::fs::remove_dir_all(&self.dir);
    }
}

pub fn unhex(h: &str) -> Vec<u8> {
    let b = h.as_bytes();
    (0..b.len() / 2).map(|i| u8::from_str_radix(std::str::from_utf8(&b[2 * i..2 * i + 2]).unwrap_or("00"), 16).unwrap_or(0)).collect()
}
pub fn hex(b: &[u8]) -> String {
    b.iter().map(|x| format!("{x:02x}")).collect()
}

#[derive(Clone, Debug, Default)]
pub struct T2Run {
    pub status: Option<i32>,
    pub signal: Option<i32>,
    /// stdout with the sandbox root replaced by `<ROOT>`
    pub stdout: String,
    pub stderr: String,
    pub truncated: bool,
    /// the interposition log (calls under the root), root replaced
    pub log: String,
    /// killed by the wall-clock watchdog: the process was blocked (it had not used up its CPU limit)
    pub blocked: bool,
}

impl T2Run {
    pub fn abnormal(&self) -> Option<String> {
        if self.blocked {
            return Some("blocked: made no progress and was killed by the wall-clock watchdog".into());
        }
        if let Some(s) = self.signal {
            let name = match s {
                6 => "SIGABRT",
                9 => "SIGKILL(cpu/mem limit)",
                11 => "SIGSEGV",
                24 => "SIGXCPU",
                _ => "signal",
            };
            return Some(format!("killed by {name} ({s})"));
        }
        match self.status {
            Some(0) => None,
            Some(c) => Some(format!("exit status {c}")),
            None => Some("no status".into()),
        }
    }
}

pub fn bin_dir() -> PathBuf {
    // target/debug/simharness -> target
    let exe = std::env::current_exe().unwrap_or_else(|_| PathBuf::from("/verif/sim/target/debug/simharness"));
    exe.parent().and_then(Path::parent).map_or_else(|| PathBuf::from("/verif/sim/target"), Path::to_path_buf)
}

pub struct RvaCall<'a> {
    pub sandbox: &'a Sandbox,
    pub base: &'a str,
    pub flags: &'a [String],
    pub entropy: u64,
    pub plan: &'a [String],
    pub profile: &'a str,
    pub force_color: bool,
    pub cpu_seconds: u64,
    /// file name (raw bytes) under which a copy of the base file is handed to the CLI instead
    pub raw_base: Option<Vec<u8>>,
    /// "full" | "closed": see `T2Spec::stdout_fault`
    pub stdout_fault: Option<&'a str>,
    /// named pipes of the sandbox (path relative to the root, text): each is fed once
    pub fifos: Vec<(String, String)>,
    /// how the base file is named on the command line: 0 absolute path (cwd = sandbox root),
    /// 1 relative to the root, 2 `./`-relative, 3 relative from the root's parent directory,
    /// 4 absolute with a doubled slash and a `.` component
    pub arg_style: u8,
}

const OUT_CAP: usize = 32 << 20;

fn read_capped(mut r: impl Read) -> (Vec<u8>, bool) {
    let mut out = Vec::new();
    let mut buf = [0u8; 65536];
    let mut truncated = false;
    loop {
        match r.read(&mut buf) {
            Ok(0) | Err(_) => break,
            Ok(n) => {
                if out.len() < OUT_CAP {
                    out.extend_from_slice(&buf[..n]);
                } else {
                    truncated = true;
                }
            }
        }
    }
    (out, truncated)
}

pub fn run_rva(c: &RvaCall) -> std::io::Result<T2Run> {
    let root = c.sandbox.root_str();
    let bins = bin_dir();
    let exe = bins.join(if c.profile == "release" { "release" } else { "debug" }).join("sim-rva");
    let preload = bins.join("debug").join("libsimworld.so");
    let log_path = c.sandbox.dir.join(".simlog");
    let _ = std::fs::remove_file(&log_path);
    let plan: Vec<String> = c.plan.iter().map(|p| p.replace("@/", &format!("{root}/"))).collect();
    let mut cmd = Command::new(&exe);
    cmd.arg("lint");
    for f in c.flags {
        cmd.arg(f);
    }
    match &c.raw_base {
        Some(name) => {
            use std::os::unix::ffi::OsStringExt;
            let mut full = format!("{root}/").into_bytes();
            full.extend_from_slice(name);
            let full = std::ffi::OsString::from_vec(full);
            let _ = std::fs::copy(format!("{root}/{}", c.base), &full);
            cmd.arg(full);
        }
        None => match c.arg_style {
            1 => {
                cmd.arg(c.base);
            }
            2 => {
                cmd.arg(format!("./{}", c.base));
            }
            3 => {
                let name = c.sandbox.dir.file_name().map(|n| n.to_string_lossy().to_string()).unwrap_or_default();
                cmd.arg(format!("{name}/{}", c.base));
            }
            4 => {
                cmd.arg(format!("{root}//./{}", c.base));
            }
            _ => {
                cmd.arg(format!("{root}/{}", c.base));
            }
        },
    }
    cmd.env_clear()
        .env("LD_PRELOAD", &preload)
        .env("VERIF_ENTROPY_SEED", c.entropy.to_string())
        .env("VERIF_SIM_ROOT", format!("{root}/"))
        .env("VERIF_SIM_LOG", &log_path)
        .env("VERIF_FAULT_PLAN", plan.join(";"))
        .env("LANG", "C")
        .env("RUST_BACKTRACE", "0")
        .env("PATH", "/usr/bin:/bin")
        .current_dir(if c.arg_style == 3 { c.sandbox.dir.parent().unwrap_or(&c.sandbox.dir) } else { &c.sandbox.dir })
        .stdin(Stdio::null())
        .stderr(Stdio::piped());
    match c.stdout_fault {
        Some("full") => {
            cmd.stdout(std::fs::OpenOptions::new().write(true).open("/dev/full").map_or_else(|_| Stdio::null(), Stdio::from));
        }
        Some("closed") => {
            // a pipe whose read end is closed before the child starts
            let mut fds = [0 as libc::c_int; 2];
            if unsafe { libc::pipe(fds.as_mut_ptr()) } == 0 {
                unsafe {
                    libc::close(fds[0]);
                }
                use std::os::fd::FromRawFd;
                cmd.stdout(unsafe { Stdio::from(std::fs::File::from_raw_fd(fds[1])) });
            } else {
                cmd.stdout(Stdio::null());
            }
        }
        _ => {
            cmd.stdout(Stdio::piped());
        }
    }
    if c.force_color {
        cmd.env("CLICOLOR_FORCE", "1");
    } else {
        cmd.env("NO_COLOR", "1");
    }
    let cpu = c.cpu_seconds;
    unsafe {
        cmd.pre_exec(move || {
            let lim = |res, v: u64| {
                let r = libc::rlimit { rlim_cur: v, rlim_max: v };
                libc::setrlimit(res, &r);
            };
            lim(libc::RLIMIT_CPU, cpu);
            lim(libc::RLIMIT_AS, 1 << 30);
            lim(libc::RLIMIT_CORE, 0);
            libc::personality(libc::ADDR_NO_RANDOMIZE as libc::c_ulong);
            Ok(())
        });
    }
    let mut child = cmd.spawn()?;
    let so = child.stdout.take();
    let se = child.stderr.take();
    let t_out = std::thread::spawn(move || so.map(read_capped).unwrap_or_default());
    let t_err = std::thread::spawn(move || se.map(read_capped).unwrap_or_default());
    // feeders of named pipes: one delivery each, to the first reader; they give up when the child is gone
    let done = std::sync::Arc::new(std::sync::atomic::AtomicBool::new(false));
    let mut feeders = Vec::new();
    for (rel, text) in &c.fifos {
        let path = format!("{root}/{rel}");
        let text = text.clone();
        let done = done.clone();
        feeders.push(std::thread::spawn(move || {
            use std::io::Write;
            use std::os::unix::fs::OpenOptionsExt;
            loop {
                if done.load(Ordering::Relaxed) {
                    return;
                }
                match std::fs::OpenOptions::new().write(true).custom_flags(libc::O_NONBLOCK).open(&path) {
                    Ok(mut f) => {
                        // a reader is there: deliver everything (blocking from here on)
                        unsafe {
                            use std::os::fd::AsRawFd;
                            let fl = libc::fcntl(f.as_raw_fd(), libc::F_GETFL);
                            libc::fcntl(f.as_raw_fd(), libc::F_SETFL, fl & !libc::O_NONBLOCK);
                        }
                        let _ = f.write_all(text.as_bytes());
                        return;
                    }
                    Err(_) => std::thread::sleep(std::time::Duration::from_millis(1)),
                }
            }
        }));
    }
    // wall-clock watchdog: a process that blocks (instead of spinning) never reaches its CPU limit
    let pid = child.id() as libc::pid_t;
    let (wd_tx, wd_rx) = std::sync::mpsc::channel::<()>();
    let wall = std::time::Duration::from_secs(3 * c.cpu_seconds + 30);
    let watchdog = std::thread::spawn(move || {
        // blocked = asleep with its CPU time standing still for 5 s (a busy process runs into its
        // CPU limit instead); the overall wall limit is a backstop
        let cpu_and_state = || -> Option<(u64, char)> {
            let st = std::fs::read_to_string(format!("/proc/{pid}/stat")).ok()?;
            let rest = &st[st.rfind(')')? + 2..];
            let f: Vec<&str> = rest.split(' ').collect();
            Some((f.get(11)?.parse::<u64>().ok()? + f.get(12)?.parse::<u64>().ok()?, f.first()?.chars().next()?))
        };
        let start = std::time::Instant::now();
        let mut last_cpu = 0u64;
        let mut last_change = start;
        loop {
            if wd_rx.recv_timeout(std::time::Duration::from_millis(250)).is_ok() {
                return false;
            }
            let now = std::time::Instant::now();
            match cpu_and_state() {
                Some((cpu, state)) => {
                    if cpu != last_cpu || state == 'R' || state == 'D' {
                        last_cpu = cpu;
                        last_change = now;
                    }
                }
                None => last_change = now,
            }
            if now - last_change > std::time::Duration::from_secs(5) || now - start > wall {
                unsafe {
                    libc::kill(pid, libc::SIGKILL);
                }
                return true;
            }
        }
    });
    let status = child.wait()?;
    let _ = wd_tx.send(());
    let blocked = watchdog.join().unwrap_or(false);
    done.store(true, Ordering::Relaxed);
    for f in feeders {
        let _ = f.join();
    }
    let (out, tr1) = t_out.join().unwrap_or_default();
    let (err, tr2) = t_err.join().unwrap_or_default();
    let log = std::fs::read_to_string(&log_path).unwrap_or_default();
    let _ = std::fs::remove_file(&log_path);
    let norm = |b: &[u8]| String::from_utf8_lossy(b).replace(&root, "<ROOT>");
    Ok(T2Run {
        status: status.code(),
        signal: status.signal(),
        stdout: norm(&out),
        stderr: norm(&err),
        truncated: tr1 || tr2,
        log: log.replace(&root, "<ROOT>"),
        blocked,
    })
}
