//! The harness PRNG: SplitMix64 for seeding, xoshiro256** for streams. No `rand`, no hash maps.

#[inline]
pub fn splitmix64(state: &mut u64) -> u64 {
    *state = state.wrapping_add(0x9E37_79B9_7F4A_7C15);
    let mut z = *state;
    z = (z ^ (z >> 30)).wrapping_mul(0xBF58_476D_1CE4_E5B9);
    z = (z ^ (z >> 27)).wrapping_mul(0x94D0_49BB_1331_11EB);
    z ^ (z >> 31)
}

/// Mix several integers into one seed (order-sensitive).
pub fn mix(parts: &[u64]) -> u64 {
    let mut s = 0x243F_6A88_85A3_08D3u64;
    for p in parts {
        s ^= *p;
        let _ = splitmix64(&mut s);
        s = s.rotate_left(23) ^ splitmix64(&mut s.clone());
    }
    splitmix64(&mut s)
}

pub fn hash_str(s: &str) -> u64 {
    // FNV-1a, 64 bit
    let mut h = 0xcbf2_9ce4_8422_2325u64;
    for b in s.as_bytes() {
        h ^= u64::from(*b);
        h = h.wrapping_mul(0x0000_0100_0000_01B3);
    }
    h
}

#[derive(Clone, Debug)]
pub struct Rng {
    s: [u64; 4],
}

impl Rng {
    pub fn new(seed: u64) -> Self {
        let mut st = seed;
        let s = [
            splitmix64(&mut st),
            splitmix64(&mut st),
            splitmix64(&mut st),
            splitmix64(&mut st),
        ];
        Rng { s }
    }
    pub fn next_u64(&mut self) -> u64 {
        let result = self.s[1].wrapping_mul(5).rotate_left(7).wrapping_mul(9);
        let t = self.s[1] << 17;
        self.s[2] ^= self.s[0];
        self.s[3] ^= self.s[1];
        self.s[1] ^= self.s[2];
        self.s[0] ^= self.s[3];
        self.s[2] ^= t;
        self.s[3] = self.s[3].rotate_left(45);
        result
    }
    /// Uniform in 0..n (n > 0).
    pub fn below(&mut self, n: u64) -> u64 {
        debug_assert!(n > 0);
        // multiply-shift; bias negligible for our n
        ((u128::from(self.next_u64()) * u128::from(n)) >> 64) as u64
    }
    pub fn range(&mut self, lo: i64, hi_incl: i64) -> i64 {
        lo + self.below((hi_incl - lo + 1) as u64) as i64
    }
    pub fn usize(&mut self, n: usize) -> usize {
        self.below(n as u64) as usize
    }
    pub fn chance(&mut self, num: u64, den: u64) -> bool {
        self.below(den) < num
    }
    pub fn pick<'a, T>(&mut self, xs: &'a [T]) -> &'a T {
        &xs[self.usize(xs.len())]
    }
    pub fn shuffle<T>(&mut self, xs: &mut [T]) {
        for i in (1..xs.len()).rev() {
            let j = self.usize(i + 1);
            xs.swap(i, j);
        }
    }
    pub fn fork(&mut self) -> Rng {
        Rng::new(self.next_u64())
    }
}
