//! Scenario minimisation (DESIGN.md §7.2): shrink while the same violation class persists. Every
//! candidate is re-checked through the ordinary oracle (fresh incarnations / processes).

use crate::props;
use crate::scenario::{Scenario, Stats};
use crate::world::{self, World};

pub struct Minimiser<'a> {
    class: &'a str,
    pub checks: usize,
    budget: usize,
    t0: std::time::Instant,
    max_wall_s: u64,
}

impl<'a> Minimiser<'a> {
    /// `budget` oracle evaluations and `max_wall_s` seconds at most (the wall cap only bounds the
    /// shrinker's effort; every candidate it accepts is a deterministic re-check).
    pub fn new(class: &'a str, budget: usize, max_wall_s: u64) -> Self {
        Minimiser { class, checks: 0, budget, t0: std::time::Instant::now(), max_wall_s }
    }

    fn fails(&mut self, s: &Scenario) -> bool {
        if self.checks >= self.budget || self.t0.elapsed().as_secs() >= self.max_wall_s {
            self.checks = self.budget;
            return false;
        }
        self.checks += 1;
        let mut st = Stats::default();
        props::check(s, &mut st).iter().any(|v| v.class == self.class)
    }

    pub fn run(&mut self, scn: &Scenario) -> Scenario {
        let mut cur = scn.clone();
        // 1. schedules: a single seed, else a pair
        if cur.entropy.len() > 1 {
            let mut done = false;
            for &e in &scn.entropy {
                let mut c = cur.clone();
                c.entropy = vec![e];
                if self.fails(&c) {
                    cur = c;
                    done = true;
                    break;
                }
            }
            if !done && scn.entropy.len() > 2 {
                'outer: for i in 0..scn.entropy.len() {
                    for j in i + 1..scn.entropy.len() {
                        let mut c = cur.clone();
                        c.entropy = vec![scn.entropy[i], scn.entropy[j]];
                        if self.fails(&c) {
                            cur = c;
                            break 'outer;
                        }
                    }
                }
            }
        }
        // 2. operations, faults, modes
        let mut i = 0;
        while i < cur.history.len() {
            let mut c = cur.clone();
            c.history.remove(i);
            if self.fails(&c) {
                cur = c;
            } else {
                i += 1;
            }
        }
        let mut i = 0;
        while i < cur.reader_faults.len() {
            let mut c = cur.clone();
            c.reader_faults.remove(i);
            if self.fails(&c) {
                cur = c;
            } else {
                i += 1;
            }
        }
        if let Some(t2) = cur.t2.clone() {
            if t2.modes.len() > 1 {
                for m in &t2.modes {
                    let mut c = cur.clone();
                    if let Some(t) = c.t2.as_mut() {
                        t.modes = vec![m.clone()];
                    }
                    if self.fails(&c) {
                        cur = c;
                        break;
                    }
                }
            }
            let mut i = 0;
            while cur.t2.as_ref().is_some_and(|t| i < t.plan.len()) {
                let mut c = cur.clone();
                if let Some(t) = c.t2.as_mut() {
                    t.plan.remove(i);
                }
                if self.fails(&c) {
                    cur = c;
                } else {
                    i += 1;
                }
            }
        }
        // 3. inline the include tree
        if cur.world.files.len() > 1 && cur.reader_faults.is_empty() && cur.world.special.is_empty() && cur.world.binary.is_empty() {
            let pasted = world::paste(&cur.world, &[]);
            let mut c = cur.clone();
            c.world = World::single(&world::pasted_text(&pasted));
            if self.fails(&c) {
                cur = c;
            }
        }
        // 4. ddmin over lines of each file
        let paths: Vec<String> = cur.world.files.keys().cloned().collect();
        for p in paths {
            cur = self.ddmin_file(cur, &p);
        }
        // 5. drop files that are no longer included
        let paths: Vec<String> = cur.world.files.keys().cloned().collect();
        for p in paths {
            if p == cur.world.base {
                continue;
            }
            let mut c = cur.clone();
            c.world.files.remove(&p);
            c.world.binary.remove(&p);
            if self.fails(&c) {
                cur = c;
            }
        }
        cur
    }

    fn ddmin_file(&mut self, mut cur: Scenario, path: &str) -> Scenario {
        let Some(text) = cur.world.files.get(path).cloned() else { return cur };
        let trailing = text.ends_with('\n');
        let mut lines: Vec<String> = world::split_lines(&text).iter().map(|s| (*s).to_string()).collect();
        let join = |ls: &[String]| {
            let mut s = ls.join("\n");
            if trailing && !ls.is_empty() {
                s.push('\n');
            }
            s
        };
        let mut chunk = (lines.len() / 2).max(1);
        while chunk >= 1 && !lines.is_empty() {
            let mut i = 0;
            let mut removed_any = false;
            while i < lines.len() {
                let end = (i + chunk).min(lines.len());
                let mut cand: Vec<String> = lines[..i].to_vec();
                cand.extend_from_slice(&lines[end..]);
                let mut c = cur.clone();
                c.world.files.insert(path.to_string(), join(&cand));
                if self.fails(&c) {
                    lines = cand;
                    cur = c;
                    removed_any = true;
                } else {
                    i = end;
                }
                if self.checks >= self.budget {
                    return cur;
                }
            }
            if chunk == 1 && !removed_any {
                break;
            }
            if chunk > 1 {
                chunk /= 2;
            } else if !removed_any {
                break;
            }
        }
        cur
    }
}
