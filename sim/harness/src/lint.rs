//! T1: one analyzer incarnation in process (DESIGN.md §2.6). Everything analyzer-side happens on a
//! fresh, entropy-seeded thread; what comes back is plain data.

use crate::entropy::{incarnation, PanicInfo};
use crate::reader::{ImportRecord, Personality, ReaderEvent, ReaderFault, SimReader};
use crate::snapshot::{self, Snap};
use crate::world::World;
use riscv_analysis::analysis::{AvailableValuePass, LivenessPass};
use riscv_analysis::cfg::Cfg;
use riscv_analysis::gen::EcallTerminationPass;
use riscv_analysis::parser::RVParser;
use riscv_analysis::passes::{DiagnosticItem, DiagnosticManager, GenerationPass, Manager, SeverityLevel};
use riscv_analysis::reader::FileReader;
use serde::{Deserialize, Serialize};
use std::collections::BTreeMap;

#[derive(Clone, Debug, Serialize, Deserialize, PartialEq, Eq, PartialOrd, Ord)]
pub struct NDiag {
    pub file: String,
    pub line: usize,
    pub col: usize,
    pub raw: usize,
    pub end_line: usize,
    pub end_col: usize,
    pub end_raw: usize,
    pub level: String,
    pub title: String,
    pub description: String,
    pub long_description: String,
    /// (file, line, col, end_col, text)
    pub related: Vec<(String, usize, usize, usize, String)>,
    pub code: Option<String>,
}

impl NDiag {
    pub fn short(&self) -> String {
        format!("{}:{}:{}-{} {} `{}`", self.file, self.line + 1, self.col + 1, self.end_col + 1, self.level, self.title)
    }
    /// identity used by the duplicate clause of C10
    pub fn dup_key(&self) -> (Option<String>, String, String, String, usize, usize, usize, usize, String, Vec<(String, usize, usize, usize, String)>) {
        (
            self.code.clone(),
            self.title.clone(),
            self.level.clone(),
            self.file.clone(),
            self.line,
            self.col,
            self.end_line,
            self.end_col,
            self.description.clone(),
            self.related.clone(),
        )
    }
}

pub fn level_name(l: &SeverityLevel) -> &'static str {
    match l {
        SeverityLevel::Error => "Error",
        SeverityLevel::Warning => "Warning",
        SeverityLevel::Information => "Info",
        SeverityLevel::Hint => "Hint",
    }
}

fn fname<R: FileReader>(reader: &R, id: uuid::Uuid) -> String {
    if id.is_nil() {
        return "<nil>".into();
    }
    reader.get_filename(id).map_or_else(|| "<unknown>".into(), |f| crate::lspreader::strip_root(&f))
}

pub fn normalise<R: FileReader>(reader: &R, d: &DiagnosticItem, code: Option<&str>) -> NDiag {
    NDiag {
        file: fname(reader, d.file),
        line: d.range.start().zero_idx_line(),
        col: d.range.start().zero_idx_column(),
        raw: d.range.start().raw_index(),
        end_line: d.range.end().zero_idx_line(),
        end_col: d.range.end().zero_idx_column(),
        end_raw: d.range.end().raw_index(),
        level: level_name(&d.level).to_string(),
        title: d.title.clone(),
        description: d.description.clone(),
        long_description: d.long_description.clone(),
        related: d
            .related
            .as_ref()
            .map(|v| {
                v.iter()
                    .map(|r| (fname(reader, r.file), r.range.start().zero_idx_line(), r.range.start().zero_idx_column(), r.range.end().zero_idx_column(), r.description.clone()))
                    .collect()
            })
            .unwrap_or_default(),
        code: code.map(str::to_string),
    }
}

#[derive(Clone, Debug, Serialize, Deserialize, PartialEq, Eq)]
pub enum Api {
    /// `RVParser::run` — the library entry point used by the editor integration
    Run,
    /// `RVParser::run` twice on one thread (same process, advancing hash-key counter), fresh reader each
    RunTwice,
    /// `parse_from_file` + `Manager::gen_full_cfg` + `Manager::run_diagnostics` (what the CLI does);
    /// exposes error codes, the graph and the order signature
    Coded,
}

/// An extra pass run applied to the finished graph (C12 histories).
#[derive(Clone, Copy, Debug, Serialize, Deserialize, PartialEq, Eq)]
pub enum PassOp {
    Available,
    EcallTermination,
    Liveness,
    Diagnostics,
}

impl PassOp {
    pub const ALL: [PassOp; 4] = [PassOp::Available, PassOp::EcallTermination, PassOp::Liveness, PassOp::Diagnostics];
}

/// Which `FileReader` implementation serves the incarnation.
#[derive(Clone, Copy, Debug, Serialize, Deserialize, PartialEq, Eq, Default)]
pub enum ReaderKind {
    /// the harness's in-memory reader (personality + fault plan)
    #[default]
    Sim,
    /// the editor integration's real `LSPFileReader` (compiled from /repo by path)
    Lsp,
}

#[derive(Clone, Debug, Serialize, Deserialize)]
pub struct LintSpec {
    #[serde(default)]
    pub reader: ReaderKind,
    pub world: World,
    pub personality: Personality,
    pub faults: Vec<ReaderFault>,
    pub entropy: u64,
    pub api: Api,
    /// per-site tick budget (hard cap turning a spinning loop into a caught panic)
    pub tick_budget: u64,
    pub want_snapshot: bool,
    /// extra pass runs after the pipeline (Coded only); a snapshot + diagnostics are taken after each
    pub history: Vec<PassOp>,
    /// analyse the same parsed nodes a second time on the same thread (Coded only)
    pub analyse_twice: bool,
    pub forget_names: bool,
}

impl LintSpec {
    /// Spec for one schedule of a scenario: reader kind, personality and fault plan from the scenario.
    pub fn of(scn: &crate::scenario::Scenario, entropy: u64, api: Api) -> LintSpec {
        let mut s = LintSpec::new(&scn.world, entropy, api);
        s.personality = scn.personality;
        if scn.personality == Personality::Lsp {
            s.reader = ReaderKind::Lsp;
        } else {
            s.faults = scn.reader_faults.clone();
        }
        s
    }

    pub fn new(world: &World, entropy: u64, api: Api) -> LintSpec {
        LintSpec {
            reader: ReaderKind::Sim,
            world: world.clone(),
            personality: Personality::Strict,
            faults: vec![],
            entropy,
            api,
            tick_budget: 0,
            want_snapshot: false,
            history: vec![],
            analyse_twice: false,
            forget_names: false,
        }
    }
}

#[derive(Clone, Debug, Serialize, Deserialize, Default)]
pub struct OrderSig {
    /// per function (by sorted labels): index of the exit among the function's source returns
    pub exits: Vec<(String, usize)>,
    pub fn_key_order: Vec<String>,
    /// diagnostics before the final sort, short form
    pub presort: Vec<String>,
}

#[derive(Clone, Debug, Serialize, Deserialize, Default)]
pub struct LintObs {
    pub diags: Vec<NDiag>,
    /// second result for RunTwice / analyse_twice
    pub diags2: Option<Vec<NDiag>>,
    pub cfg_error: Option<String>,
    pub ticks: BTreeMap<String, u64>,
    /// ticks of the *pass pipeline only* per pass run in order: (site, sweeps)
    pub sweeps: Vec<(String, u64)>,
    pub imports: usize,
    pub import_log: Vec<ImportRecord>,
    pub reader_history: Vec<ReaderEvent>,
    pub fired: Vec<(usize, String)>,
    pub import_budget_exceeded: bool,
    /// characters the reader handed out (0 when the reader keeps no account)
    pub imported_chars: usize,
    pub parser_nodes: usize,
    pub parse_errors: usize,
    pub sig: OrderSig,
    pub snapshot: Option<Snap>,
    pub snapshot2: Option<Snap>,
    /// snapshot and diagnostics after each history step
    pub after: Vec<(Snap, Vec<NDiag>)>,
    pub panic: Option<PanicInfo>,
    pub entropy_draws: u64,
}

/// Tick budget of the parse phase: every iteration of the parse loop consumes at least one token
/// or pops a file, so a few times the number of characters is far above any correct run.
fn default_budget(world: &World) -> u64 {
    // every file may be read once per include occurrence
    let reads = 1 + world.include_occurrences() as u64;
    2_000 + 4 * world.total_bytes() as u64 * reads
}

/// Tick budget of the analysis phase (sweeps of the `while changed` loops, summed over the pass
/// runs of the pipeline): a hard cap that turns oscillation into a caught marker panic. It lies
/// above the reportable bound (4 * nodes + 16 per pass run), so nothing that is within the
/// property's bound is ever cut off, and low enough that a spinning loop ends within seconds.
fn sweep_budget(parser_nodes: usize) -> u64 {
    128 + 16 * parser_nodes as u64
}

fn run_lints(cfg: &Cfg) -> Vec<(DiagnosticItem, String)> {
    let mut errs = DiagnosticManager::new();
    Manager::run_diagnostics(cfg, &mut errs);
    errs.iter().map(|x| (DiagnosticItem::from_displayable(x.as_ref()), x.get_error_code().to_string())).collect()
}

fn body(spec: LintSpec) -> LintObs {
    match spec.reader {
        ReaderKind::Sim => {
            let base = spec.world.base.clone();
            let mk = || {
                let mut r = SimReader::new(&spec.world, spec.personality, &spec.faults);
                r.forget_names = spec.forget_names;
                r
            };
            let collect = |obs: &mut LintObs, r: &SimReader| {
                obs.imports = r.imports();
                obs.import_log = r.import_log.clone();
                obs.reader_history = r.history.clone();
                obs.fired = r.fired.iter().map(|(i, k)| (*i, k.name().to_string())).collect();
                obs.import_budget_exceeded = r.budget_exceeded;
                obs.imported_chars = r.imported_chars;
            };
            body_with(&spec, &base, &mk, &collect)
        }
        ReaderKind::Lsp => {
            let base = crate::lspreader::base_uri(&spec.world);
            let docs = crate::lspreader::documents(&spec.world);
            let mk = || crate::lspreader::LSPFileReader::new(docs.clone());
            let collect = |_obs: &mut LintObs, _r: &crate::lspreader::LSPFileReader| {};
            body_with(&spec, &base, &mk, &collect)
        }
    }
}

fn body_with<R: FileReader>(spec: &LintSpec, base: &str, mk_reader: &dyn Fn() -> R, collect_reader: &dyn Fn(&mut LintObs, &R)) -> LintObs {
    let mut obs = LintObs::default();
    let budget = if spec.tick_budget == 0 { default_budget(&spec.world) } else { spec.tick_budget };
    riscv_analysis::verif::set_budget(budget);
    let _ = riscv_analysis::verif::take_counts();
    match spec.api {
        Api::Run | Api::RunTwice => {
            let mut parser = RVParser::new(mk_reader());
            let d = parser.run(base);
            obs.diags = d.iter().map(|x| normalise(&parser.reader, x, None)).collect();
            collect_reader(&mut obs, &parser.reader);
            if spec.api == Api::RunTwice {
                let mut parser2 = RVParser::new(mk_reader());
                let d2 = parser2.run(base);
                obs.diags2 = Some(d2.iter().map(|x| normalise(&parser2.reader, x, None)).collect());
            }
        }
        Api::Coded => {
            let mut parser = RVParser::new(mk_reader());
            let (nodes, perrs) = parser.parse_from_file(base, false);
            obs.parser_nodes = nodes.len();
            obs.parse_errors = perrs.len();
            collect_reader(&mut obs, &parser.reader);
            let parse_ticks = riscv_analysis::verif::take_counts();
            for (k, v) in &parse_ticks {
                *obs.ticks.entry((*k).to_string()).or_insert(0) += v;
            }
            let mut items: Vec<(DiagnosticItem, Option<String>)> = perrs.iter().map(|e| (DiagnosticItem::from(e.clone()), None)).collect();
            let nodes2 = if spec.analyse_twice { Some(nodes.clone()) } else { None };
            if spec.tick_budget == 0 {
                riscv_analysis::verif::set_budget(sweep_budget(nodes.len()));
            }
            match Manager::gen_full_cfg(nodes) {
                Ok(mut cfg) => {
                    let t = riscv_analysis::verif::take_counts();
                    for (k, v) in &t {
                        *obs.ticks.entry((*k).to_string()).or_insert(0) += v;
                    }
                    let lints = run_lints(&cfg);
                    obs.sig.presort = lints.iter().map(|(d, c)| format!("{c}@{}:{}", d.range.start().zero_idx_line(), d.range.start().zero_idx_column())).collect();
                    items.extend(lints.into_iter().map(|(d, c)| (d, Some(c))));
                    let snap = snapshot::take(&cfg, &parser.reader);
                    obs.sig.fn_key_order = snap.fn_key_order.clone();
                    for f in &snap.funcs {
                        // index of the exit among this function's returns/rewritten returns in source order
                        let mut rets: Vec<usize> = f.nodes.iter().copied().filter(|&i| i != snapshot::NONE && (snap.nodes[i].is_return || snap.nodes[i].rewritten_return)).collect();
                        rets.sort_unstable();
                        rets.dedup();
                        let pos = rets.iter().position(|&i| i == f.exit).unwrap_or(usize::MAX);
                        obs.sig.exits.push((f.labels.join(","), pos));
                    }
                    // C12 histories: extra pass runs on the finished graph
                    for op in &spec.history {
                        // take_counts resets the counters, so every extra run has the full budget
                        let _ = riscv_analysis::verif::take_counts();
                        let mut d_after: Vec<(DiagnosticItem, Option<String>)> = Vec::new();
                        match op {
                            PassOp::Available => {
                                let _ = AvailableValuePass::run(&mut cfg);
                            }
                            PassOp::EcallTermination => {
                                let _ = EcallTerminationPass::run(&mut cfg);
                            }
                            PassOp::Liveness => {
                                let _ = LivenessPass::run(&mut cfg);
                            }
                            PassOp::Diagnostics => {}
                        }
                        let t = riscv_analysis::verif::take_counts();
                        for (k, v) in &t {
                            obs.sweeps.push(((*k).to_string(), *v));
                        }
                        d_after.extend(run_lints(&cfg).into_iter().map(|(d, c)| (d, Some(c))));
                        let mut nd: Vec<NDiag> = d_after.iter().map(|(d, c)| normalise(&parser.reader, d, c.as_deref())).collect();
                        nd.sort();
                        obs.after.push((snapshot::take(&cfg, &parser.reader), nd));
                    }
                    if spec.want_snapshot || !spec.history.is_empty() {
                        obs.snapshot = Some(snap);
                    }
                }
                Err(e) => {
                    obs.cfg_error = Some(e.to_string());
                    items.push((DiagnosticItem::from(*e), None));
                }
            }
            // the tool's own ordering (`RVParser::sort_diagnostics`, as main.rs calls it). The error
            // code rides along inside `long_description` so that the real sort is what orders it.
            let mut tagged: Vec<DiagnosticItem> = items
                .iter()
                .map(|(d, c)| {
                    let mut d = d.clone();
                    d.long_description = format!("{}\u{1}{}", c.clone().unwrap_or_default(), d.long_description);
                    d
                })
                .collect();
            parser.sort_diagnostics(&mut tagged);
            parser.dedup_diagnostics(&mut tagged);
            obs.diags = tagged
                .iter()
                .map(|d| {
                    let mut d = d.clone();
                    let (code, rest) = d.long_description.split_once('\u{1}').map(|(a, b)| (a.to_string(), b.to_string())).unwrap_or_default();
                    d.long_description = rest;
                    normalise(&parser.reader, &d, if code.is_empty() { None } else { Some(code.as_str()) })
                })
                .collect();
            if let Some(nodes2) = nodes2 {
                let _ = riscv_analysis::verif::take_counts();
                if let Ok(cfg2) = Manager::gen_full_cfg(nodes2) {
                    let mut nd: Vec<NDiag> = run_lints(&cfg2).iter().map(|(d, c)| normalise(&parser.reader, d, Some(c))).collect();
                    nd.sort();
                    obs.diags2 = Some(nd);
                    obs.snapshot2 = Some(snapshot::take(&cfg2, &parser.reader));
                }
            }
        }
    }
    let t = riscv_analysis::verif::take_counts();
    for (k, v) in &t {
        *obs.ticks.entry((*k).to_string()).or_insert(0) += v;
    }
    obs
}

/// Run one incarnation. Never panics; a panic inside the analyzer is reported in `obs.panic`.
pub fn run(spec: &LintSpec) -> LintObs {
    let s = spec.clone();
    let out = incarnation(spec.entropy, move || body(s));
    match out.result {
        Ok(mut o) => {
            o.entropy_draws = out.entropy_draws;
            o
        }
        Err(p) => LintObs { panic: Some(p), entropy_draws: out.entropy_draws, ..LintObs::default() },
    }
}
