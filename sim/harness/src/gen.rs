//! Workload: seeded generator of RISC-V assembly programs (DESIGN.md §3.1).
//!
//! The generator is workload, not oracle. It emits one statement per line in a small dialect that
//! `refmodel` can re-read on its own, so that no oracle depends on generator-side bookkeeping and
//! minimised (line-deleted) programs stay checkable.

use crate::rng::Rng;
use serde::{Deserialize, Serialize};

#[derive(Clone, Debug, Serialize, Deserialize, Default)]
pub struct GenCfg {
    pub n_funcs: usize,
    /// 0 tidy, 1 mixed, 2 sloppy
    pub discipline: u8,
    pub body_items: usize,
    pub multi_label: bool,
    pub multi_ret: bool,
    pub shared_tail: bool,
    pub fallthrough: bool,
    pub jump_into: bool,
    pub noreturn_fn: bool,
    pub unreachable_caller: bool,
    pub handler: bool,
    pub data: bool,
    pub undefined_label: bool,
    pub duplicate_label: bool,
    pub parse_errors: bool,
    pub boundary_imm: bool,
    pub code_after_exit: bool,
    pub recursion: bool,
    pub irreducible: bool,
    pub numeric_regs: bool,
    pub tabs: bool,
    pub comments: bool,
    pub label_own_line: bool,
    pub main_label: bool,
    /// the functions are written before the main code (the first instruction is a function)
    #[serde(default)]
    pub fn_first: bool,
    /// every function has a tail label and jumps into other functions' tails are frequent
    #[serde(default)]
    pub overlap_heavy: bool,
    /// statements that span several lines: data lists continued on the following lines, macro
    /// definitions (which the analyzer skips as a whole). Off unless a property asks for it: the
    /// reference edge model does not read them.
    #[serde(default)]
    pub multiline: bool,
}

impl GenCfg {
    /// Swarm configuration: every knob drawn independently per run.
    pub fn swarm(r: &mut Rng) -> GenCfg {
        let mut g = Self::swarm_base(r);
        if r.chance(1, 10) {
            g.make_overlap_heavy();
        }
        g
    }

    /// Code shared by several functions: every function has a tail, jumps into other functions'
    /// tails are frequent, several returns.
    pub fn make_overlap_heavy(&mut self) {
        self.overlap_heavy = true;
        self.shared_tail = true;
        self.multi_ret = true;
        self.n_funcs = self.n_funcs.max(3);
        self.noreturn_fn = false;
    }

    fn swarm_base(r: &mut Rng) -> GenCfg {
        let size_class = r.below(10);
        let body_items = match size_class {
            0..=5 => 1 + r.usize(3),
            6..=8 => 2 + r.usize(5),
            _ => 5 + r.usize(8),
        };
        GenCfg {
            n_funcs: match r.below(10) {
                0 => 0,
                1..=5 => 1 + r.usize(2),
                6..=8 => 2 + r.usize(2),
                _ => 3 + r.usize(4),
            },
            discipline: r.below(3) as u8,
            body_items,
            multi_label: r.chance(1, 2),
            multi_ret: r.chance(1, 2),
            shared_tail: r.chance(1, 5),
            fallthrough: r.chance(1, 6),
            jump_into: r.chance(1, 8),
            noreturn_fn: r.chance(1, 12),
            unreachable_caller: r.chance(1, 6),
            handler: r.chance(1, 8),
            data: r.chance(1, 2),
            undefined_label: r.chance(1, 25),
            duplicate_label: r.chance(1, 30),
            parse_errors: r.chance(1, 8),
            boundary_imm: r.chance(1, 8),
            code_after_exit: r.chance(1, 4),
            recursion: r.chance(1, 4),
            irreducible: r.chance(1, 4),
            numeric_regs: r.chance(1, 4),
            tabs: r.chance(1, 4),
            comments: r.chance(1, 3),
            label_own_line: r.chance(3, 4),
            main_label: r.chance(4, 5),
            fn_first: r.chance(1, 10),
            overlap_heavy: false,
            multiline: false,
        }
    }

    /// A configuration restricted to the class the C03 reference edge model covers: every path ends
    /// in a return or an exit ecall, no parse errors, no CFG errors.
    pub fn wellformed(mut self) -> GenCfg {
        self.noreturn_fn = false;
        self.undefined_label = false;
        self.duplicate_label = false;
        self.parse_errors = false;
        self
    }
}

const TEMPS: [&str; 7] = ["t0", "t1", "t2", "t3", "t4", "t5", "t6"];
const ARGS: [&str; 8] = ["a0", "a1", "a2", "a3", "a4", "a5", "a6", "a7"];
const SAVED: [&str; 12] = ["s0", "s1", "s2", "s3", "s4", "s5", "s6", "s7", "s8", "s9", "s10", "s11"];

fn numeric(reg: &str) -> String {
    let n = match reg {
        "zero" => 0,
        "ra" => 1,
        "sp" => 2,
        "gp" => 3,
        "tp" => 4,
        "t0" => 5,
        "t1" => 6,
        "t2" => 7,
        "s0" => 8,
        "s1" => 9,
        r if r.starts_with('a') => 10 + r[1..].parse::<u32>().unwrap_or(0),
        r if r.starts_with('s') => 16 + r[1..].parse::<u32>().unwrap_or(2),
        r if r.starts_with('t') => 25 + r[1..].parse::<u32>().unwrap_or(3),
        _ => return reg.to_string(),
    };
    format!("x{n}")
}

struct FnCtx {
    /// index of this function (None = main)
    idx: Option<usize>,
    frame: i64,
    saved: Vec<&'static str>,
    saves_ra: bool,
    /// registers known to be defined at this point (tidy mode reads only these)
    defined: Vec<&'static str>,
}

pub struct Gen<'a> {
    r: &'a mut Rng,
    cfg: GenCfg,
    out: Vec<String>,
    label_n: usize,
    data_labels: Vec<String>,
    fn_names: Vec<Vec<String>>,
    /// label inside function k usable as a shared tail target
    tail_labels: Vec<Option<String>>,
    /// labels on early returns of functions already written: (function index, label)
    early_labels: Vec<(usize, String)>,
    /// helper functions `setslot<M>` (store M through the pointer in a0) that the program calls
    setslots: Vec<i64>,
    /// helper functions `seta7_<M>` (set a7 to M and return)
    seta7: Vec<i64>,
}

pub fn generate(r: &mut Rng, cfg: &GenCfg) -> Vec<String> {
    let mut g = Gen {
        r,
        cfg: cfg.clone(),
        out: Vec::new(),
        label_n: 0,
        data_labels: Vec::new(),
        fn_names: Vec::new(),
        tail_labels: Vec::new(),
        early_labels: Vec::new(),
        setslots: Vec::new(),
        seta7: Vec::new(),
    };
    g.program();
    g.out
}

impl Gen<'_> {
    fn reg(&self, r: &str) -> String {
        if self.cfg.numeric_regs {
            numeric(r)
        } else {
            r.to_string()
        }
    }
    fn ind(&self) -> &'static str {
        if self.cfg.tabs {
            "\t"
        } else {
            "    "
        }
    }
    fn emit(&mut self, s: String) {
        let c = if self.cfg.comments && self.r.chance(1, 6) { "  # note" } else { "" };
        let line = format!("{}{}{}", self.ind(), s, c);
        self.out.push(line);
    }
    fn emit_label(&mut self, l: &str) {
        if self.cfg.label_own_line || self.r.chance(1, 2) {
            self.out.push(format!("{l}:"));
        } else {
            // label in front of the next instruction: remember and prepend
            self.out.push(format!("{l}:"));
        }
    }
    fn fresh(&mut self, stem: &str) -> String {
        self.label_n += 1;
        format!("{stem}{}", self.label_n)
    }
    fn imm(&mut self) -> i64 {
        if self.cfg.boundary_imm && self.r.chance(1, 4) {
            *self.r.pick(&[2047, -2048, 2147483647, -2147483647, 65535, 4096, -1, 0x7fff_f000])
        } else {
            self.r.range(-64, 200)
        }
    }
    fn imm_text(&mut self, v: i64) -> String {
        if self.cfg.boundary_imm && self.r.chance(1, 6) {
            // spellings at the edge of the 32-bit range
            return (*self.r.pick(&["-0x80000000", "0x80000000", "0xFFFFFFFF", "-2147483648", "2147483647", "-0x7FFFFFFF", "0b11111111111111111111111111111111", "-0b10000000000000000000000000000000"])).to_string();
        }
        if v >= 0 && self.r.chance(1, 5) {
            format!("0x{v:x}")
        } else {
            v.to_string()
        }
    }

    fn src(&mut self, ctx: &FnCtx) -> &'static str {
        match self.cfg.discipline {
            0 => {
                if ctx.defined.is_empty() {
                    "zero"
                } else {
                    let d = ctx.defined.clone();
                    *self.r.pick(&d)
                }
            }
            1 => {
                if !ctx.defined.is_empty() && self.r.chance(4, 5) {
                    let d = ctx.defined.clone();
                    *self.r.pick(&d)
                } else {
                    *self.r.pick(&TEMPS)
                }
            }
            _ => match self.r.below(10) {
                0..=3 => *self.r.pick(&TEMPS),
                4..=6 => *self.r.pick(&ARGS),
                7..=8 => *self.r.pick(&SAVED),
                _ => *self.r.pick(&["zero", "ra", "sp"]),
            },
        }
    }
    fn dst(&mut self, ctx: &mut FnCtx) -> &'static str {
        let d = match self.cfg.discipline {
            0 => {
                if !ctx.saved.is_empty() && self.r.chance(1, 4) {
                    let s = ctx.saved.clone();
                    *self.r.pick(&s)
                } else if self.r.chance(1, 3) {
                    *self.r.pick(&ARGS[..4])
                } else {
                    *self.r.pick(&TEMPS)
                }
            }
            1 => match self.r.below(10) {
                0..=5 => *self.r.pick(&TEMPS),
                6..=7 => *self.r.pick(&ARGS),
                _ => *self.r.pick(&SAVED),
            },
            _ => match self.r.below(12) {
                0..=3 => *self.r.pick(&TEMPS),
                4..=6 => *self.r.pick(&ARGS),
                7..=9 => *self.r.pick(&SAVED),
                10 => "zero",
                _ => *self.r.pick(&["ra", "sp"]),
            },
        };
        if !ctx.defined.contains(&d) {
            ctx.defined.push(d);
        }
        d
    }

    fn arith(&mut self, ctx: &mut FnCtx) {
        if self.cfg.multiline && self.r.chance(1, 12) {
            // a macro definition: the analyzer skips it up to its end, over any number of lines
            let name = self.fresh("mac");
            self.emit(format!(".macro {name}"));
            for _ in 0..1 + self.r.usize(3) {
                self.emit(format!("addi {0}, {0}, 1", self.reg("t1")));
            }
            self.emit(".endmacro".into());
            return;
        }
        if self.cfg.discipline >= 1 && self.r.chance(1, 18) {
            // push or pop without its counterpart
            let k = *self.r.pick(&[-16i64, -8, -4, 4, 8, 16]);
            self.emit(format!("addi {0}, {0}, {k}", self.reg("sp")));
            return;
        }
        if self.cfg.boundary_imm && self.r.chance(1, 5) {
            // an operation both of whose operands are known corner values: the analyzer folds it
            const CORNERS: [&str; 12] = ["0x80000000", "-1", "0", "1", "0x7fffffff", "-2147483648", "31", "32", "33", "0xffffffff", "-2", "2"];
            const OPS: [&str; 13] = ["add", "sub", "mul", "div", "rem", "sll", "srl", "sra", "slt", "sltu", "and", "or", "xor"];
            let (x, y) = (*self.r.pick(&CORNERS), *self.r.pick(&CORNERS));
            let op = *self.r.pick(&OPS);
            let d = self.dst(ctx);
            let d = self.reg(d);
            self.emit(format!("li {}, {x}", self.reg("t0")));
            self.emit(format!("li {}, {y}", self.reg("t1")));
            self.emit(format!("{op} {d}, {}, {}", self.reg("t0"), self.reg("t1")));
            for r in ["t0", "t1"] {
                if !ctx.defined.contains(&r) {
                    ctx.defined.push(r);
                }
            }
            return;
        }
        let a = self.src(ctx);
        let b = self.src(ctx);
        let d = self.dst(ctx);
        let (a, b, d) = (self.reg(a), self.reg(b), self.reg(d));
        let v = self.imm();
        let small = self.r.range(0, 31);
        let vt = self.imm_text(v);
        let s = match self.r.below(16) {
            0 => format!("add {d}, {a}, {b}"),
            1 => format!("sub {d}, {a}, {b}"),
            2 => format!("addi {d}, {a}, {vt}"),
            3 => format!("li {d}, {vt}"),
            4 => format!("mv {d}, {a}"),
            5 => format!("slli {d}, {a}, {small}"),
            6 => format!("and {d}, {a}, {b}"),
            7 => format!("or {d}, {a}, {b}"),
            8 => format!("xor {d}, {a}, {b}"),
            9 if self.cfg.discipline > 0 && self.r.chance(1, 3) => format!("li {d}, {}", *self.r.pick(&["'a'", "'\\n'", "'\\u0041'", "'\\''", "'\\u00e9'"])),
            9 => format!("mul {d}, {a}, {b}"),
            10 => format!("neg {d}, {a}"),
            11 => format!("not {d}, {a}"),
            12 => format!("seqz {d}, {a}"),
            13 => format!("srai {d}, {a}, {small}"),
            14 => format!("andi {d}, {a}, {vt}"),
            _ => format!("slt {d}, {a}, {b}"),
        };
        self.emit(s);
    }

    fn mem(&mut self, ctx: &mut FnCtx) {
        if self.cfg.boundary_imm && self.r.chance(1, 5) {
            // an access at the very edge of the offset range, frame or no frame
            let off = *self.r.pick(&["0x80000000", "-0x80000000", "2147483647", "-2147483647", "0x7FFFFFFC", "0xFFFFFFFC"]);
            let reg = self.src(ctx);
            let reg = self.reg(reg);
            let op = *self.r.pick(&["sw", "lw", "sb", "lb"]);
            self.emit(format!("{op} {reg}, {off}({})", self.reg("sp")));
            return;
        }
        if self.r.chance(1, 12) {
            // the operand form without a base register: `lw rd, imm` (an absolute address)
            let off = 4 * self.r.range(0, 64);
            if self.r.chance(1, 2) {
                let d = self.dst(ctx);
                let d = self.reg(d);
                self.emit(format!("lw {d}, {off}"));
            } else {
                let s = self.src(ctx);
                let s = self.reg(s);
                self.emit(format!("sw {s}, {off}"));
            }
            return;
        }
        if ctx.frame > 0 && self.r.chance(2, 3) {
            let slots = ctx.frame / 4;
            let off = 4 * self.r.range(0, slots - 1);
            let off = if self.cfg.discipline == 2 && self.r.chance(1, 5) { off + ctx.frame } else { off };
            let off = if self.cfg.boundary_imm && self.r.chance(1, 4) { *self.r.pick(&[2147483647i64, -2147483648, 2147483632, -2147483647]) } else { off };
            if self.r.chance(1, 2) {
                let s = self.src(ctx);
                let s = self.reg(s);
                self.emit(format!("sw {s}, {off}({})", self.reg("sp")));
            } else {
                let d = self.dst(ctx);
                let d = self.reg(d);
                self.emit(format!("lw {d}, {off}({})", self.reg("sp")));
            }
        } else if !self.data_labels.is_empty() {
            let l = self.r.pick(&self.data_labels.clone()).clone();
            let d = self.dst(ctx);
            let d = self.reg(d);
            if self.r.chance(1, 2) {
                self.emit(format!("la {d}, {l}"));
                self.emit(format!("lw {d}, 0({d})"));
            } else {
                self.emit(format!("lw {d}, {l}"));
            }
        } else {
            self.arith(ctx);
        }
    }

    fn cond(&mut self, ctx: &FnCtx, target: &str) -> String {
        let a = self.src(ctx);
        let b = self.src(ctx);
        // now and then the zero register in one position (always/never/sometimes-taken forms)
        let (a, b) = match self.r.below(12) {
            0 => ("zero", b),
            1 => (a, "zero"),
            _ => (a, b),
        };
        let (a, b) = (self.reg(a), self.reg(b));
        match self.r.below(13) {
            8 => format!("bgeu {a}, {b}, {target}"),
            9 => format!("bleu {a}, {b}, {target}"),
            10 => format!("bgtu {a}, {b}, {target}"),
            11 => format!("ble {a}, {b}, {target}"),
            12 => format!("bgez {a}, {target}"),
            0 => format!("beq {a}, {b}, {target}"),
            1 => format!("bne {a}, {b}, {target}"),
            2 => format!("blt {a}, {b}, {target}"),
            3 => format!("bge {a}, {b}, {target}"),
            4 => format!("beqz {a}, {target}"),
            5 => format!("bnez {a}, {target}"),
            6 => format!("bgt {a}, {b}, {target}"),
            _ => format!("bltu {a}, {b}, {target}"),
        }
    }

    fn call(&mut self, ctx: &mut FnCtx) {
        if self.fn_names.is_empty() {
            return self.arith(ctx);
        }
        let n = self.fn_names.len();
        let k = match ctx.idx {
            Some(i) if !self.cfg.recursion => {
                if i + 1 >= n {
                    return self.arith(ctx);
                }
                i + 1 + self.r.usize(n - i - 1)
            }
            _ => self.r.usize(n),
        };
        let names = self.fn_names[k].clone();
        let name = self.r.pick(&names).clone();
        if self.cfg.discipline < 2 || self.r.chance(1, 2) {
            let v = self.imm();
            let vt = self.imm_text(v);
            self.emit(format!("li {}, {vt}", self.reg("a0")));
            if !ctx.defined.contains(&"a0") {
                ctx.defined.push("a0");
            }
        }
        let s = match self.r.below(3) {
            0 => format!("jal {name}"),
            1 => format!("call {name}"),
            _ => format!("jal {}, {name}", self.reg("ra")),
        };
        self.emit(s);
        // after a call only saved registers and a0 stay meaningful in tidy code
        ctx.defined.retain(|r| r.starts_with('s') || *r == "a0" || *r == "zero");
        if !ctx.defined.contains(&"a0") {
            ctx.defined.push("a0");
        }
    }

    /// The number of the service sits in a local; before it is reloaded the local is overwritten
    /// without naming the slot: through a copy of sp, or by a function that was handed its address.
    fn ecall_number_in_overwritten_local(&mut self, ctx: &mut FnCtx) {
        let x = *self.r.pick(&[10i64, 93]);
        let m = *self.r.pick(&[1i64, 11, 34]);
        let by_callee = (ctx.idx.is_none() || ctx.saves_ra) && self.r.chance(1, 2);
        self.emit(format!("addi {0}, {0}, -4", self.reg("sp")));
        self.emit(format!("li {}, {x}", self.reg("t0")));
        self.emit(format!("sw {}, 0({})", self.reg("t0"), self.reg("sp")));
        if by_callee {
            self.emit(format!("mv {}, {}", self.reg("a0"), self.reg("sp")));
            self.emit(format!("jal setslot{m}"));
            if !self.setslots.contains(&m) {
                self.setslots.push(m);
            }
        } else {
            if self.r.chance(1, 2) {
                self.emit(format!("mv {}, {}", self.reg("t2"), self.reg("sp")));
            } else {
                self.emit(format!("addi {}, {}, 0", self.reg("t2"), self.reg("sp")));
            }
            self.emit(format!("li {}, {m}", self.reg("t1")));
            self.emit(format!("sw {}, 0({})", self.reg("t1"), self.reg("t2")));
        }
        self.emit(format!("lw {}, 0({})", self.reg("a7"), self.reg("sp")));
        self.emit(format!("li {}, 7", self.reg("a0")));
        self.emit("ecall".into());
        self.emit(format!("addi {0}, {0}, 4", self.reg("sp")));
        ctx.defined.retain(|r| r.starts_with('s') || *r == "zero");
        ctx.defined.push("a0");
    }

    fn ecall(&mut self, ctx: &mut FnCtx) {
        if self.r.chance(1, 12) {
            self.ecall_number_in_overwritten_local(ctx);
            return;
        }
        if (ctx.idx.is_none() || ctx.saves_ra) && self.r.chance(1, 16) {
            // the number of the service is set, then a function is called through a register:
            // whatever it was, it was free to change a7
            let m = *self.r.pick(&[1i64, 11]);
            let x = *self.r.pick(&[10i64, 93]);
            if !self.seta7.contains(&m) {
                self.seta7.push(m);
            }
            self.emit(format!("jal seta7_{m}"));
            self.emit(format!("la {}, seta7_{m}", self.reg("t0")));
            self.emit(format!("li {}, {x}", self.reg("a7")));
            self.emit(format!("jalr {}, {}, 0", self.reg("ra"), self.reg("t0")));
            self.emit(format!("li {}, 42", self.reg("a0")));
            self.emit("ecall".into());
            ctx.defined.retain(|r| r.starts_with('s') || *r == "zero");
            ctx.defined.push("a0");
            return;
        }
        if self.r.chance(1, 16) {
            // a buffer in the frame is handed to a service that fills it (ReadString): what the
            // slot held before says nothing about what is loaded from it afterwards
            let x = *self.r.pick(&[10i64, 93]);
            self.emit(format!("addi {0}, {0}, -16", self.reg("sp")));
            self.emit(format!("li {}, {x}", self.reg("t0")));
            self.emit(format!("sw {}, 0({})", self.reg("t0"), self.reg("sp")));
            self.emit(format!("mv {}, {}", self.reg("a0"), self.reg("sp")));
            self.emit(format!("li {}, 8", self.reg("a1")));
            self.emit(format!("li {}, 8", self.reg("a7")));
            self.emit("ecall".into());
            self.emit(format!("lw {}, 0({})", self.reg("a7"), self.reg("sp")));
            self.emit("ecall".into());
            self.emit(format!("addi {0}, {0}, 16", self.reg("sp")));
            ctx.defined.retain(|r| r.starts_with('s') || *r == "zero");
            ctx.defined.push("a0");
            return;
        }
        if self.r.chance(1, 14) {
            // the number of the service makes a round trip through the save area that uscratch
            // points to (two slots): the value analysis follows it through its memory facts
            let n = *self.r.pick(&[1i64, 1, 11, 10, 93]);
            self.emit(format!("csrr {}, uscratch", self.reg("t0")));
            self.emit(format!("li {}, {n}", self.reg("t1")));
            self.emit(format!("sw {}, 0({})", self.reg("t1"), self.reg("t0")));
            self.emit(format!("lw {}, 0({})", self.reg("t2"), self.reg("t0")));
            self.emit(format!("sw {}, 4({})", self.reg("t2"), self.reg("t0")));
            self.emit(format!("lw {}, 4({})", self.reg("a7"), self.reg("t0")));
            self.emit(format!("li {}, 7", self.reg("a0")));
            self.emit("ecall".into());
            ctx.defined.retain(|r| r.starts_with('s') || *r == "zero");
            ctx.defined.push("a0");
            return;
        }
        let n = if self.cfg.discipline == 2 && self.r.chance(1, 4) {
            None
        } else {
            Some(*self.r.pick(&[1i64, 4, 5, 11, 34, 41, 9, 30, 2, 77]))
        };
        if let Some(n) = n {
            if matches!(n, 1 | 4 | 11 | 34 | 9 | 41) && self.cfg.discipline < 2 {
                let v = self.imm();
                self.emit(format!("li {}, {v}", self.reg("a0")));
            } else if matches!(n, 5 | 9 | 41) && self.r.chance(1, 2) {
                // a0 happens to hold the number of an exit service before the call overwrites it
                let v = *self.r.pick(&[10i64, 93]);
                self.emit(format!("li {}, {v}", self.reg("a0")));
            }
            self.emit(format!("li {}, {n}", self.reg("a7")));
        }
        self.emit("ecall".into());
        if let Some(n) = n {
            if matches!(n, 5 | 9 | 41) && self.r.chance(1, 8) {
                // the value just returned is spilled, its register reused for the number of an
                // exit service, and the spilled value decides which service is called next
                let v = *self.r.pick(&[10i64, 93]);
                self.emit(format!("addi {0}, {0}, -4", self.reg("sp")));
                self.emit(format!("sw {}, 0({})", self.reg("a0"), self.reg("sp")));
                self.emit(format!("li {}, {v}", self.reg("a0")));
                if self.r.chance(2, 3) {
                    self.emit("nop".into());
                }
                self.emit(format!("lw {}, 0({})", self.reg("a7"), self.reg("sp")));
                self.emit(format!("addi {0}, {0}, 4", self.reg("sp")));
                self.emit("ecall".into());
            } else if matches!(n, 5 | 9 | 41) && self.r.chance(1, 3) {
                // the value just returned decides which service is called next
                if self.r.chance(1, 2) {
                    self.emit(format!("mv {}, {}", self.reg("a7"), self.reg("a0")));
                } else {
                    self.emit(format!("addi {}, {}, 0", self.reg("a7"), self.reg("a0")));
                }
                self.emit("ecall".into());
            }
        }
        ctx.defined.retain(|r| r.starts_with('s') || *r == "zero");
        ctx.defined.push("a0");
    }

    fn epilogue(&mut self, ctx: &FnCtx) {
        if ctx.frame > 0 {
            let mut off = 0;
            if ctx.saves_ra {
                self.emit(format!("lw {}, {off}({})", self.reg("ra"), self.reg("sp")));
                off += 4;
            }
            for s in ctx.saved.clone() {
                // sloppy code sometimes forgets a restore
                if !(self.cfg.discipline == 2 && self.r.chance(1, 6)) {
                    self.emit(format!("lw {}, {off}({})", self.reg(s), self.reg("sp")));
                }
                off += 4;
            }
            self.emit(format!("addi {0}, {0}, {1}", self.reg("sp"), ctx.frame));
        }
    }

    fn ret(&mut self, ctx: &FnCtx) {
        self.epilogue(ctx);
        let s = match self.r.below(4) {
            0 => format!("jr {}", self.reg("ra")),
            1 => format!("jalr {}, {}, 0", self.reg("zero"), self.reg("ra")),
            _ => "ret".to_string(),
        };
        self.emit(s);
    }

    fn body(&mut self, ctx: &mut FnCtx, items: usize, depth: usize) {
        for _ in 0..items {
            let in_fn = ctx.idx.is_some();
            if in_fn && self.cfg.overlap_heavy && depth < 3 && self.r.chance(1, 6) {
                // a labelled early return: later functions can end in it
                let lc = self.fresh("cont");
                let c = self.cond(ctx, &lc);
                self.emit(c);
                let le = self.fresh("early");
                self.emit_label(&le);
                self.early_labels.push((ctx.idx.unwrap_or(usize::MAX), le));
                self.ret(ctx);
                self.emit_label(&lc);
                continue;
            }
            match self.r.below(21) {
                20 if depth < 3 => {
                    // unstructured jumps: a block that is only entered by a backward jump
                    let la = self.fresh("spa");
                    let lb = self.fresh("spb");
                    let lc = self.fresh("spc");
                    self.emit(format!("j {la}"));
                    self.emit_label(&lb);
                    self.arith(ctx);
                    self.emit(format!("j {lc}"));
                    self.emit_label(&la);
                    self.arith(ctx);
                    if self.r.chance(1, 2) {
                        let c = self.cond(ctx, &lc);
                        self.emit(c);
                    }
                    self.emit(format!("j {lb}"));
                    self.emit_label(&lc);
                }
                0..=6 => self.arith(ctx),
                7..=8 => self.mem(ctx),
                9..=10 => self.call(ctx),
                11 => self.ecall(ctx),
                12..=13 if depth < 3 => {
                    // diamond
                    let le = self.fresh("else");
                    let ld = self.fresh("done");
                    let c = self.cond(ctx, &le);
                    self.emit(c);
                    let inner = 1 + self.r.usize(2);
                    let saved_defs = ctx.defined.clone();
                    self.body(ctx, inner, depth + 1);
                    if self.r.chance(1, 6) {
                        // a jump that links into a scratch register
                        let lr = *self.r.pick(&["t3", "a0", "t6", "s2"]);
                        self.emit(format!("jal {}, {ld}", self.reg(lr)));
                    } else {
                        self.emit(format!("j {ld}"));
                    }
                    let then_defs = std::mem::replace(&mut ctx.defined, saved_defs);
                    self.emit_label(&le);
                    let inner = 1 + self.r.usize(2);
                    self.body(ctx, inner, depth + 1);
                    self.emit_label(&ld);
                    ctx.defined.retain(|r| then_defs.contains(r));
                }
                14 if depth < 3 => {
                    // if without else
                    let ls = self.fresh("skip");
                    let c = self.cond(ctx, &ls);
                    self.emit(c);
                    let saved_defs = ctx.defined.clone();
                    let inner = 1 + self.r.usize(2);
                    self.body(ctx, inner, depth + 1);
                    ctx.defined = saved_defs;
                    self.emit_label(&ls);
                }
                15..=16 if depth < 3 => {
                    // counted loop
                    let ll = self.fresh("loop");
                    let cnt = *self.r.pick(&["t0", "t1", "s1", "a3"]);
                    let n = self.r.range(1, 9);
                    self.emit(format!("li {}, {n}", self.reg(cnt)));
                    if !ctx.defined.contains(&cnt) {
                        ctx.defined.push(cnt);
                    }
                    self.emit_label(&ll);
                    let inner = 1 + self.r.usize(2);
                    self.body(ctx, inner, depth + 1);
                    self.emit(format!("addi {0}, {0}, -1", self.reg(cnt)));
                    self.emit(format!("bnez {}, {ll}", self.reg(cnt)));
                }
                14..=17 if in_fn && self.cfg.overlap_heavy && self.r.chance(1, 2) => {
                    let me = ctx.idx.unwrap_or(usize::MAX);
                    let mut tails: Vec<String> = self.tail_labels.iter().enumerate().filter(|(k, t)| *k != me && t.is_some()).filter_map(|(_, t)| t.clone()).collect();
                    tails.extend(self.early_labels.iter().filter(|(k, _)| *k != me).map(|(_, l)| l.clone()));
                    if let Some(t) = tails.get(self.r.usize(tails.len().max(1))).cloned() {
                        let c = self.cond(ctx, &t);
                        self.emit(c);
                    } else {
                        self.arith(ctx);
                    }
                }
                16 | 17 if in_fn && self.cfg.shared_tail && self.r.chance(1, 3) => {
                    // conditional jump into the tail of some other function: a function can then
                    // reach the code (and the exits) of several others
                    let me = ctx.idx.unwrap_or(usize::MAX);
                    let mut tails: Vec<String> = self.tail_labels.iter().enumerate().filter(|(k, t)| *k != me && t.is_some()).filter_map(|(_, t)| t.clone()).collect();
                    tails.extend(self.early_labels.iter().filter(|(k, _)| *k != me).map(|(_, l)| l.clone()));
                    if tails.is_empty() {
                        self.arith(ctx);
                    } else {
                        let t = self.r.pick(&tails).clone();
                        let c = self.cond(ctx, &t);
                        self.emit(c);
                    }
                }
                17 if in_fn && self.cfg.multi_ret && depth < 3 => {
                    // early return
                    let lc = self.fresh("cont");
                    let c = self.cond(ctx, &lc);
                    self.emit(c);
                    if self.cfg.shared_tail && self.r.chance(1, 2) {
                        // ... with a label on it, so that functions written further down can end
                        // in this function's *first* return without reaching its last
                        let le = self.fresh("early");
                        self.emit_label(&le);
                        self.early_labels.push((ctx.idx.unwrap_or(usize::MAX), le));
                    }
                    self.ret(ctx);
                    self.emit_label(&lc);
                }
                19 if self.cfg.code_after_exit && depth == 0 => {
                    // an ecall reached by fall-through from an exit and by a jump that sets a7 elsewhere
                    let lx = self.fresh("shx");
                    let lp = self.fresh("shp");
                    let ld = self.fresh("shd");
                    let c = self.cond(ctx, &lp);
                    self.emit(c);
                    let n1 = *self.r.pick(&[93i64, 10, 1, 93]);
                    if n1 != 10 {
                        self.emit(format!("li {}, 0", self.reg("a0")));
                    }
                    self.emit(format!("li {}, {n1}", self.reg("a7")));
                    self.emit("ecall".into());
                    self.emit_label(&lx);
                    if self.r.chance(1, 2) {
                        // an ordinary instruction between the two (behind the join label): the
                        // second ecall is not the direct successor of the first
                        self.emit(format!("addi {0}, {0}, 0", self.reg("t3")));
                    }
                    self.emit("ecall".into());
                    if in_fn && self.r.chance(1, 2) {
                        // directly followed by a further return of the function
                        self.ret(ctx);
                    } else {
                        self.arith(ctx);
                        self.emit(format!("j {ld}"));
                    }
                    self.emit_label(&lp);
                    let n2 = *self.r.pick(&[10i64, 93, 1, 5]);
                    self.emit(format!("li {}, {n2}", self.reg("a7")));
                    self.emit(format!("j {lx}"));
                    self.emit_label(&ld);
                }
                18 if self.cfg.irreducible && depth < 2 => {
                    if self.r.chance(1, 2) {
                        // a loop whose body is also entered from below, by a jump that links into
                        // a scratch register which the path from above has defined
                        let lr = *self.r.pick(&["t0", "t3", "a0", "t6"]);
                        let lh = self.fresh("lhead");
                        let lb = self.fresh("lbody");
                        let le = self.fresh("lentry");
                        let ld = self.fresh("ldone");
                        let v = self.imm();
                        self.emit(format!("li {}, {v}", self.reg(lr)));
                        if !ctx.defined.contains(&lr) {
                            ctx.defined.push(lr);
                        }
                        let c = self.cond(ctx, &le);
                        self.emit(c);
                        self.emit_label(&lh);
                        self.arith(ctx);
                        self.emit_label(&lb);
                        self.arith(ctx);
                        if self.r.chance(1, 2) {
                            self.emit("nop".into());
                        }
                        let c = self.cond(ctx, &lh);
                        self.emit(c);
                        self.emit(format!("j {ld}"));
                        self.emit_label(&le);
                        self.emit(format!("jal {}, {lb}", self.reg(lr)));
                        self.emit_label(&ld);
                        continue;
                    }
                    // two-entry loop: jump into the middle of a loop body
                    let la = self.fresh("irr");
                    let lb = self.fresh("irr");
                    let c = self.cond(ctx, &lb);
                    self.emit(c);
                    self.emit_label(&la);
                    self.arith(ctx);
                    self.emit_label(&lb);
                    self.arith(ctx);
                    let c = self.cond(ctx, &la);
                    self.emit(c);
                }
                _ => self.arith(ctx),
            }
        }
    }

    fn data_block(&mut self) {
        self.out.push(format!("{}.data", self.ind()));
        let n = 1 + self.r.usize(3);
        for _ in 0..n {
            let l = self.fresh("dat");
            self.data_labels.push(l.clone());
            self.emit_label(&l);
            let s = match self.r.below(6) {
                0 => format!(".word {}", self.r.range(0, 1000)),
                1 => format!(".word {}, {}, {}", self.r.range(0, 9), self.r.range(0, 9), self.r.range(-5, 5)),
                2 => (*self.r.pick(&[".asciz \"hello world\"", ".asciz \"caf\\u00e9 \\u4e16\\u754c\"", ".ascii \"tab\\there \\\"q\\\" \\\\ \\0\"", ".asciz \"\\u0041\\u00df\""])).to_string(),
                3 => format!(".space {}", 4 * self.r.range(1, 8)),
                4 => format!(".byte {}", self.r.range(0, 255)),
                _ => ".string \"a\\tb\\n\"".to_string(),
            };
            let s = format!("{}{}", self.ind(), s);
            self.out.push(s);
            if self.cfg.multiline && self.r.chance(1, 2) {
                // a list that goes on over the following lines
                let kw = *self.r.pick(&[".word", ".byte", ".half"]);
                self.out.push(format!("{}{kw} {}, {},", self.ind(), self.r.range(0, 9), self.r.range(0, 9)));
                for _ in 0..1 + self.r.usize(3) {
                    self.out.push(format!("{}    {}, {}", self.ind(), self.r.range(0, 9), self.r.range(0, 9)));
                }
            }
            if self.r.chance(1, 5) {
                self.out.push(format!("{}.align 2", self.ind()));
            }
        }
        self.out.push(format!("{}.text", self.ind()));
    }

    fn exit(&mut self) {
        if self.r.chance(2, 3) {
            self.emit(format!("li {}, 10", self.reg("a7")));
        } else {
            let code = self.r.range(0, 3);
            self.emit(format!("li {}, {code}", self.reg("a0")));
            self.emit(format!("li {}, 93", self.reg("a7")));
        }
        self.emit("ecall".into());
    }

    fn bad_line(&mut self) {
        let s = match self.r.below(8) {
            0 => "add a0, a1".to_string(),
            1 => "frobnicate t0, t1".to_string(),
            2 => "lw t0, (".to_string(),
            3 => "addi t0, t0, 99999999999".to_string(),
            4 => ".asciz \"unterminated".to_string(),
            5 => (*self.r.pick(&[".unknowndir 4", ".unknowndir \"text\"", ".eqv LIMIT \"ten\""])).to_string(),
            6 => (*self.r.pick(&["li t0, 'ab'", "li a0, '\u{a0}' oops", ".asciz \"a\u{3000}b\u{a0}\" extra", "li a0, '\u{3000}' , , oops t1"])).to_string(),
            _ => (*self.r.pick(&[") stray", "t0:", "la a0, \"a\\nb\"", "li a0, '\\n' '\\t'", "sp: addi a0, a0, 1"])).to_string(),
        };
        self.emit(s);
    }

    fn program(&mut self) {
        let cfg = self.cfg.clone();
        // names first, so that calls can refer forward
        for k in 0..cfg.n_funcs {
            let mut names = vec![format!("fn{k}")];
            if cfg.multi_label && self.r.chance(1, 2) {
                names.push(format!("fn{k}_alt"));
                if self.r.chance(1, 3) {
                    names.push(format!("fn{k}_b"));
                }
            }
            self.fn_names.push(names);
            // decided up front so that an earlier function can jump forward into a later one's tail
            let tail = if cfg.shared_tail && (cfg.overlap_heavy || self.r.chance(1, 2)) { Some(format!("tailf{k}")) } else { None };
            self.tail_labels.push(tail);
        }
        let data_first = cfg.data && self.r.chance(1, 2);
        if data_first {
            self.data_block();
        }
        let main_start = self.out.len();
        if cfg.main_label {
            self.emit_label("main");
        }
        let mut mctx = FnCtx { idx: None, frame: 0, saved: vec![], saves_ra: false, defined: vec!["zero"] };
        if cfg.handler && self.r.chance(1, 4) {
            // the installation stands behind a label that, on paper, an exit ecall falls into
            let (lf, li) = (self.fresh("fin"), self.fresh("inst"));
            self.emit(format!("la {}, handler", self.reg("t0")));
            self.emit(format!("j {li}"));
            self.emit_label(&lf);
            self.exit();
            if self.r.chance(1, 2) {
                // ... and dead code that puts another address into the register falls into it
                self.emit(format!("la {}, {lf}", self.reg("t0")));
            }
            self.emit_label(&li);
            self.emit(format!("csrrw {}, utvec, {}", self.reg("zero"), self.reg("t0")));
            self.body(&mut mctx, 1, 1);
            self.emit(format!("li {}, 0", self.reg("t0")));
            if self.r.chance(1, 2) {
                self.emit(format!("j {lf}"));
            } else {
                let c = self.cond(&mctx, &lf);
                self.emit(c);
            }
        } else if cfg.handler {
            self.emit(format!("la {}, handler", self.reg("t0")));
            let s = match self.r.below(5) {
                0 => format!("csrrw {}, utvec, {}", self.reg("zero"), self.reg("t0")),
                1 => format!("csrw {}, utvec", self.reg("t0")),
                2 => format!("csrrw {0}, utvec, {0}", self.reg("t0")),
                3 => format!("csrrw {}, utvec, {}", self.reg("t1"), self.reg("t0")),
                _ => format!("csrrw {}, 5, {}", self.reg("zero"), self.reg("t0")),
            };
            self.emit(s);
        }
        self.body(&mut mctx, cfg.body_items, 0);
        // make sure every function is called from somewhere reachable unless asked otherwise
        for k in 0..cfg.n_funcs {
            let skip = cfg.unreachable_caller && k + 1 == cfg.n_funcs;
            if !skip && self.r.chance(3, 4) {
                let name = self.fn_names[k][0].clone();
                self.emit(format!("jal {name}"));
            }
        }
        if cfg.jump_into && cfg.n_funcs > 0 && self.r.chance(1, 2) {
            let k = self.r.usize(cfg.n_funcs);
            let name = self.fn_names[k][0].clone();
            let ls = self.fresh("skip");
            let c = self.cond(&mctx, &ls);
            self.emit(c);
            self.emit(format!("j {name}"));
            self.emit_label(&ls);
        }
        if cfg.parse_errors {
            self.bad_line();
        }
        if cfg.undefined_label {
            self.emit("beqz a0, nowhere_defined".into());
        }
        self.exit();
        if cfg.code_after_exit && self.r.chance(1, 3) {
            // dead code after the exit: a two-armed loop that nothing leads into; one arm leaves a
            // fact (a register or a memory fact), and the block that closes the loop stands in
            // front of the jump from the other arm
            let (lp, la, li) = (self.fresh("dpoll"), self.fresh("dagain"), self.fresh("didle"));
            self.emit_label(&lp);
            let c = self.cond(&mctx, &li);
            self.emit(c);
            let v = self.r.range(0, 3);
            let fact = match self.r.below(4) {
                0 => format!("li {}, {v}", self.reg("t1")),
                1 => format!("csrrwi {}, 64, {v}", self.reg("zero")),
                2 => format!("csrrw {}, uscratch, {}", self.reg("zero"), self.reg("t1")),
                _ => format!("sw {}, {}({})", self.reg("t1"), 4 * v, self.reg("sp")),
            };
            self.emit(fact);
            self.emit(format!("j {la}"));
            self.emit_label(&la);
            if self.r.chance(1, 2) {
                self.emit(format!("addi {0}, {0}, -1", self.reg("t0")));
            }
            self.emit(format!("j {lp}"));
            self.emit_label(&li);
            self.emit(format!("addi {0}, {0}, 1", self.reg("t1")));
            self.emit(format!("j {la}"));
        }
        if cfg.code_after_exit && self.r.chance(1, 2) {
            // dead code after the exit: a few blocks that jump among themselves in no particular
            // structure (loops entered from nowhere, blocks placed before the jump that enters them)
            let n = 3 + self.r.usize(4);
            let labels: Vec<String> = (0..n).map(|_| self.fresh("dead")).collect();
            for k in 0..n {
                self.emit_label(&labels[k].clone());
                match self.r.below(4) {
                    0 => {
                        let v = self.r.range(0, 3);
                        let d = *self.r.pick(&["t1", "a7", "t0"]);
                        self.emit(format!("li {}, {v}", self.reg(d)));
                    }
                    1 => self.arith(&mut mctx),
                    2 => {
                        // something the memory facts remember: a CSR write, a store to the frame
                        let v = self.r.range(0, 3);
                        let s = match self.r.below(3) {
                            0 => format!("csrrwi {}, 64, {v}", self.reg("zero")),
                            1 => format!("csrrw {}, uscratch, {}", self.reg("zero"), self.reg("t1")),
                            _ => format!("sw {}, {}({})", self.reg("t1"), 4 * v, self.reg("sp")),
                        };
                        self.emit(s);
                    }
                    _ => {}
                }
                let t = self.r.pick(&labels).clone();
                match self.r.below(3) {
                    0 => {
                        let c = self.cond(&mctx, &t);
                        self.emit(c);
                    }
                    1 => self.emit(format!("j {t}")),
                    _ => {}
                }
            }
            let t = self.r.pick(&labels).clone();
            self.emit(format!("j {t}"));
        }
        if cfg.code_after_exit {
            // dead code after the exit, possibly the only caller of the last function
            self.arith(&mut mctx);
            if cfg.unreachable_caller && cfg.n_funcs > 0 {
                let name = self.fn_names[cfg.n_funcs - 1][0].clone();
                self.emit(format!("jal {name}"));
            }
            self.arith(&mut mctx);
        } else if cfg.unreachable_caller && cfg.n_funcs > 0 {
            let name = self.fn_names[cfg.n_funcs - 1][0].clone();
            self.emit(format!("jal {name}"));
            self.exit();
        }

        let fn_start = self.out.len();
        for k in 0..cfg.n_funcs {
            for n in self.fn_names[k].clone() {
                self.emit_label(&n);
            }
            if cfg.data && self.r.chance(1, 10) {
                // a local data block between a function's labels and its first instruction
                self.data_block();
            }
            let nsaved = match cfg.discipline {
                0 => self.r.usize(3),
                _ => self.r.usize(4),
            };
            let mut saved: Vec<&'static str> = Vec::new();
            for _ in 0..nsaved {
                let s = *self.r.pick(&SAVED);
                if !saved.contains(&s) {
                    saved.push(s);
                }
            }
            let saves_ra = self.r.chance(2, 3);
            let slots = saved.len() as i64 + i64::from(saves_ra);
            let has_frame = slots > 0 && !(cfg.discipline == 2 && self.r.chance(1, 4));
            let frame = if has_frame { ((slots * 4 + 15) / 16) * 16 } else { 0 };
            let mut ctx = FnCtx {
                idx: Some(k),
                frame,
                saved: if has_frame { saved } else { vec![] },
                saves_ra: has_frame && saves_ra,
                defined: vec!["zero", "a0", "a1"],
            };
            if frame > 0 {
                self.emit(format!("addi {0}, {0}, -{frame}", self.reg("sp")));
                let mut off = 0;
                if ctx.saves_ra {
                    self.emit(format!("sw {}, {off}({})", self.reg("ra"), self.reg("sp")));
                    off += 4;
                }
                for s in ctx.saved.clone() {
                    self.emit(format!("sw {}, {off}({})", self.reg(s), self.reg("sp")));
                    off += 4;
                }
            }
            let items = 1 + self.r.usize(cfg.body_items.max(1));
            let half = items / 2;
            self.body(&mut ctx, half, 0);
            if let Some(t) = self.tail_labels[k].clone() {
                self.emit_label(&t);
            }
            self.body(&mut ctx, items - half, 0);
            if cfg.parse_errors && self.r.chance(1, 3) {
                self.bad_line();
            }
            // how the function ends
            let last = k + 1 == cfg.n_funcs;
            if cfg.noreturn_fn && self.r.chance(1, 2) {
                if self.r.chance(1, 2) {
                    self.exit();
                } else {
                    let l = self.fresh("spin");
                    self.emit_label(&l);
                    self.emit(format!("j {l}"));
                }
            } else if cfg.shared_tail && k > 0 && self.tail_labels[k - 1].is_some() && self.r.chance(1, 2) {
                let t = self.tail_labels[k - 1].clone().unwrap_or_default();
                self.emit(format!("j {t}"));
            } else if cfg.shared_tail && !last && self.tail_labels[k + 1].is_some() && self.r.chance(1, 2) {
                // forward: end in the tail of the function that follows
                let t = self.tail_labels[k + 1].clone().unwrap_or_default();
                self.emit(format!("j {t}"));
            } else if cfg.fallthrough && !last && self.r.chance(1, 2) {
                // fall through into the next function
            } else {
                self.ret(&ctx);
            }
        }
        for m in self.seta7.clone() {
            self.emit_label(&format!("seta7_{m}"));
            self.emit(format!("li {}, {m}", self.reg("a7")));
            self.emit("ret".into());
        }
        for m in self.setslots.clone() {
            self.emit_label(&format!("setslot{m}"));
            self.emit(format!("li {}, {m}", self.reg("t1")));
            self.emit(format!("sw {}, 0({})", self.reg("t1"), self.reg("a0")));
            self.emit("ret".into());
        }
        if cfg.fn_first && fn_start > main_start && self.out.len() > fn_start {
            // move the block of functions in front of the main code
            let funcs: Vec<String> = self.out.drain(fn_start..).collect();
            let rest: Vec<String> = self.out.drain(main_start..).collect();
            self.out.extend(funcs);
            self.out.extend(rest);
        }
        let handler_start = self.out.len();
        if cfg.handler {
            self.emit_label("handler");
            let mut ctx = FnCtx { idx: Some(usize::MAX), frame: 0, saved: vec![], saves_ra: false, defined: vec!["zero"] };
            let saved_fns = std::mem::take(&mut self.fn_names);
            let save_area = self.r.chance(1, 2);
            if save_area {
                // the usual shape: swap a register with uscratch, save registers through it
                let scratch = *self.r.pick(&["uscratch", "64"]);
                self.emit(format!("csrrw {0}, {scratch}, {0}", self.reg("a0")));
                if self.r.chance(1, 2) {
                    // a fatal-error path that exits, written in front of the save code
                    let ls = self.fresh("save");
                    self.emit(format!("beqz {}, {ls}", self.reg("t0")));
                    if self.r.chance(1, 2) {
                        self.emit(format!("li {}, 4", self.reg("a7")));
                        self.emit("ecall".into());
                    }
                    self.exit();
                    self.emit_label(&ls);
                }
                self.emit(format!("sw {}, 0({})", self.reg("t0"), self.reg("a0")));
                self.emit(format!("sw {}, 4({})", self.reg("t1"), self.reg("a0")));
                if self.r.chance(1, 2) {
                    self.emit(format!("csrr {}, ucause", self.reg("t0")));
                }
            }
            let n_items = 1 + self.r.usize(2);
            self.body(&mut ctx, n_items, 1);
            self.fn_names = saved_fns;
            if save_area {
                if self.r.chance(1, 2) {
                    self.emit(format!("addi {}, {}, 1", self.reg("t1"), self.reg("zero")));
                }
                self.emit(format!("lw {}, 4({})", self.reg("t1"), self.reg("a0")));
                self.emit(format!("lw {}, 0({})", self.reg("t0"), self.reg("a0")));
                self.emit(format!("csrrw {0}, uscratch, {0}", self.reg("a0")));
            }
            self.emit("uret".into());
            // the handler need not be the last thing in the file: now and then it stands in front
            // of the functions, with code following its uret
            if self.r.chance(1, 2) && !cfg.fn_first && fn_start < handler_start {
                let h: Vec<String> = self.out.drain(handler_start..).collect();
                let tail: Vec<String> = self.out.drain(fn_start..).collect();
                self.out.extend(h);
                self.out.extend(tail);
            }
        }
        if cfg.duplicate_label {
            self.emit_label("main");
            self.emit("nop".into());
        }
        if cfg.data && !data_first {
            self.data_block();
        }
        // blank lines / comment lines sprinkled in
        if cfg.comments {
            let n = self.out.len();
            let k = self.r.usize(3);
            for _ in 0..k {
                let at = self.r.usize(n + 1).min(self.out.len());
                let s = if self.r.chance(1, 2) { String::new() } else { "# a comment line".to_string() };
                self.out.insert(at, s);
            }
        }
        // labels glued in front of the following instruction
        if !cfg.label_own_line {
            let mut i = 0;
            while i + 1 < self.out.len() {
                let is_label = self.out[i].ends_with(':') && !self.out[i].starts_with(char::is_whitespace);
                let next = self.out[i + 1].trim_start().to_string();
                let next_ok = !next.is_empty() && !next.starts_with('#') && !next.starts_with('.') && !next.ends_with(':');
                if is_label && next_ok && self.r.chance(1, 2) {
                    let l = self.out.remove(i);
                    self.out[i] = format!("{l} {next}");
                }
                i += 1;
            }
        }
    }
}
