mod entropy;
mod rng;

fn selftest() -> Result<(), String> {
    use std::collections::hash_map::RandomState;
    use std::hash::BuildHasher;
    let probe = |seed: u64| {
        entropy::incarnation(seed, || {
            let h = RandomState::new().hash_one(42u64);
            let u = uuid::Uuid::new_v4().to_string();
            let set: std::collections::HashSet<u32> = (0..64).collect();
            let order: Vec<u32> = set.into_iter().collect();
            (h, u, order)
        })
    };
    let a = probe(7);
    let b = probe(7);
    let c = probe(8);
    let (a, b, c) = (a.result.unwrap(), b.result.unwrap(), c.result.unwrap());
    if a != b {
        return Err(format!("equal seeds gave different draws: {a:?} vs {b:?}"));
    }
    if a.0 == c.0 || a.1 == c.1 || a.2 == c.2 {
        return Err("different seeds gave equal draws".into());
    }
    println!("selftest ok: {:x} {}", a.0, a.1);
    Ok(())
}

fn main() {
    entropy::install_panic_hook();
    if let Err(e) = selftest() {
        eprintln!("HARNESS ERROR: entropy seam not in control: {e}");
        std::process::exit(2);
    }
}
