#![allow(dead_code, unused_assignments)]
mod driver;
mod entropy;
mod faults;
mod gen;
mod lint;
mod lspreader;
mod minimise;
mod props;
mod reader;
mod refmodel;
mod rng;
mod scenario;
mod snapshot;
mod t2;
mod world;

use scenario::Tier;

fn selftest() -> Result<(), String> {
    use std::collections::hash_map::RandomState;
    use std::hash::BuildHasher;
    let probe = |seed: u64| {
        entropy::incarnation(seed, || {
            let h = RandomState::new().hash_one(42u64);
            let u = uuid::Uuid::new_v4().to_string();
            let set: std::collections::HashSet<u32> = (0..64).collect();
            let order: Vec<u32> = set.into_iter().collect();
            (h, u, order)
        })
    };
    let (a, b, c) = (probe(7), probe(7), probe(8));
    if a.entropy_draws == 0 {
        return Err("the incarnation made no draw from the seam".into());
    }
    let (a, b, c) = (a.result.map_err(|p| p.message)?, b.result.map_err(|p| p.message)?, c.result.map_err(|p| p.message)?);
    if a != b {
        return Err(format!("equal seeds gave different draws: {a:?} vs {b:?}"));
    }
    if a.0 == c.0 || a.1 == c.1 || a.2 == c.2 {
        return Err("different seeds gave equal draws".into());
    }
    // T2: same seed twice => byte-identical --yaml dump of a two-return function
    let w = world::World::single("main:\n  jal f\n  li a7, 10\n  ecall\nf:\n  beqz a0, L\n  li a0, 1\n  ret\nL:\n  li a0, 2\n  ret\n");
    let sb = t2::Sandbox::new(&w).map_err(|e| format!("sandbox: {e}"))?;
    let flags = vec!["--yaml".to_string()];
    let run = |e: u64, plan: &[String]| {
        t2::run_rva(&t2::RvaCall { sandbox: &sb, base: "base.s", flags: &flags, entropy: e, plan, profile: "dev", force_color: false, cpu_seconds: 10, raw_base: None, stdout_fault: None, fifos: vec![], arg_style: 0 }).map_err(|e| format!("spawn sim-rva: {e}"))
    };
    let (x, y) = (run(11, &[])?, run(11, &[])?);
    if x.abnormal().is_some() {
        return Err(format!("sim-rva failed on the canary: {:?} {}", x.abnormal(), x.stderr));
    }
    if x.stdout != y.stdout || x.stdout.is_empty() {
        return Err("sim-rva output differs for equal VERIF_ENTROPY_SEED".into());
    }
    // the process must have drawn its hash keys and UUIDs through the seam
    if !x.log.contains("getrandom 1 len") || !x.log.contains("(seeded)") {
        return Err("sim-rva drew no entropy through the seam (log has no seeded getrandom call)".into());
    }
    // forks made by this process (every T2 run is one) must not change what an incarnation draws
    let a2 = probe(7);
    if a2.result.map_err(|p| p.message)? != a {
        return Err("an incarnation draws different entropy after the process has forked".into());
    }
    // file seam canary: a planned fault on the first open must be observed
    let z = run(11, &["open:1:errno:5".to_string()])?;
    if !z.log.contains("FAULT errno 5") || z.stdout == x.stdout {
        return Err("file seam canary: the planned open fault was not observed".into());
    }
    Ok(())
}

fn usage() -> ! {
    eprintln!("usage: simharness check <ID> [--tier quick|thorough] [--runs N] [--workers W] [--max-wall S] | replay <file> | selftest | worker ...");
    std::process::exit(2)
}

fn main() {
    // One malloc arena with a large top pad: incarnation threads otherwise grow a fresh arena by
    // thousands of 4 KiB mprotect calls each, which dominates the run time inside a VM.
    unsafe {
        libc::mallopt(libc::M_ARENA_MAX, 1);
        libc::mallopt(libc::M_TOP_PAD, 256 << 20);
        libc::mallopt(libc::M_TRIM_THRESHOLD, 512 << 20);
        libc::mallopt(libc::M_MMAP_THRESHOLD, 64 << 20);
    }
    entropy::install_panic_hook();
    entropy::normalise_fork_state();
    if std::env::var("VERIF_DEBUG_DRAWS").is_ok() {
        entropy::DEBUG_DRAWS.store(true, std::sync::atomic::Ordering::Relaxed);
    }
    let args: Vec<String> = std::env::args().skip(1).collect();
    let Some(cmd) = args.first() else { usage() };
    let master: u64 = std::env::var("VERIF_SEED").ok().and_then(|s| s.parse().ok()).unwrap_or(20_260_925);
    match cmd.as_str() {
        "selftest" => match selftest() {
            Ok(()) => println!("selftest ok"),
            Err(e) => {
                eprintln!("HARNESS ERROR: seams not in control: {e}");
                std::process::exit(2);
            }
        },
        "worker" => {
            if args.len() < 7 {
                usage();
            }
            let tier = if args[2] == "thorough" { Tier::Thorough } else { Tier::Quick };
            let p = |i: usize| args[i].parse::<u64>().unwrap_or(0);
            driver::worker(&args[1], tier, p(3), p(4), p(5), p(6));
        }
        "entropy-probe" => {
            use std::hash::BuildHasher;
            let probe = |seed: u64| {
                entropy::incarnation(seed, || {
                    let h = std::collections::hash_map::RandomState::new().hash_one(42u64);
                    let u = uuid::Uuid::new_v4().to_string();
                    (h, u)
                })
                .result
                .unwrap()
            };
            for round in 0..2 {
                for seed in [1u64, 2, 3, 1, 2, 3] {
                    println!("round {round} seed {seed}: {:?}", probe(seed));
                }
            }
        }
        "debug-passes" => {
            // run the pipeline of a single file up to the first exit cut, then watch the next value
            // analysis sweep by sweep (each k in its own incarnation: same UUIDs, same hash order)
            use riscv_analysis::passes::GenerationPass;
            let Some(f) = args.get(1) else { usage() };
            let text = std::fs::read_to_string(f).unwrap_or_default();
            for k in 1..14u64 {
                let text = text.clone();
                let out = entropy::incarnation(1, move || {
                    let (nodes, _) = riscv_analysis::parser::RVStringParser::parse_from_text(&text);
                    let mut cfg = riscv_analysis::cfg::Cfg::new(nodes).unwrap();
                    riscv_analysis::gen::NodeDirectionPass::run(&mut cfg).unwrap();
                    riscv_analysis::gen::EliminateDeadCodeDirectionsPass::run(&mut cfg).unwrap();
                    riscv_analysis::analysis::AvailableValuePass::run(&mut cfg).unwrap();
                    let cut = riscv_analysis::gen::EcallTerminationPass::terminate(&mut cfg);
                    riscv_analysis::verif::set_budget(k);
                    let _ = riscv_analysis::verif::take_counts();
                    let r = std::panic::catch_unwind(std::panic::AssertUnwindSafe(|| {
                        let _ = riscv_analysis::analysis::AvailableValuePass::run(&mut cfg);
                    }));
                    let facts: Vec<String> = cfg.nodes().iter().map(|n| format!("{}", n.reg_values_in())).collect();
                    format!("cut={cut} converged={} in: {}", r.is_ok(), facts.join(" | "))
                });
                println!("k={k}: {}", out.result.unwrap_or_else(|p| p.message));
            }
        }
        "show" => {
            // print the scenario a run index generates (no analyzer code runs)
            let Some(prop) = args.get(1) else { usage() };
            let i: u64 = args.get(2).and_then(|s| s.parse().ok()).unwrap_or(0);
            let tier = if args.get(3).map(String::as_str) == Some("thorough") { Tier::Thorough } else { Tier::Quick };
            let scn = props::generate(prop, driver::run_seed(master, prop, i), tier, i);
            println!("{}", serde_json::to_string_pretty(&scn).unwrap_or_default());
        }
        "determinism" => {
            let Some(prop) = args.get(1) else { usage() };
            let runs = args.get(2).and_then(|s| s.parse().ok()).unwrap_or(500);
            let tier = if args.get(3).map(String::as_str) == Some("thorough") { Tier::Thorough } else { Tier::Quick };
            std::process::exit(driver::determinism(prop, tier, master, runs));
        }
        "minimise" => {
            let Some(f) = args.get(1) else { usage() };
            let wall = args.get(2).and_then(|s| s.parse().ok()).unwrap_or(300);
            std::process::exit(driver::minimise_file(f, wall));
        }
        "replay" => {
            let Some(f) = args.get(1) else { usage() };
            std::process::exit(driver::replay(f));
        }
        "check" => {
            let Some(prop) = args.get(1) else { usage() };
            if !props::CLAIMED.contains(&prop.as_str()) {
                eprintln!("HARNESS ERROR: property {prop} is not claimed by this framework");
                std::process::exit(2);
            }
            let mut tier = match std::env::var("VERIF_TIER").as_deref() {
                Ok("thorough") => Tier::Thorough,
                _ => Tier::Quick,
            };
            let mut runs = None;
            let mut workers = std::thread::available_parallelism().map_or(8, std::num::NonZero::get);
            let mut max_wall = None;
            let mut replay = None;
            let mut i = 2;
            while i < args.len() {
                let v = args.get(i + 1).cloned().unwrap_or_default();
                match args[i].as_str() {
                    "--tier" => tier = if v == "thorough" { Tier::Thorough } else { Tier::Quick },
                    "--runs" => runs = v.parse().ok(),
                    "--workers" => workers = v.parse().unwrap_or(workers),
                    "--max-wall" => max_wall = v.parse().ok(),
                    "--replay" => replay = Some(v),
                    _ => usage(),
                }
                i += 2;
            }
            if let Err(e) = selftest() {
                eprintln!("HARNESS ERROR: seams not in control: {e}");
                std::process::exit(2);
            }
            if let Some(f) = replay {
                std::process::exit(driver::replay(&f));
            }
            let code = driver::check(&driver::CheckOpts { prop: prop.clone(), tier, master, runs, workers, max_wall_s: max_wall });
            std::process::exit(code);
        }
        _ => usage(),
    }
}
