//! C10 — output is deterministic and free of duplicate diagnostics (DESIGN.md §5.3).

use crate::lint::{self, Api, LintSpec, NDiag};
use crate::reader::Personality;
use crate::rng::{hash_str, mix, Rng};
use crate::scenario::{Scenario, Stats, T2Spec, Tier, Violation};
use crate::t2;
use std::collections::BTreeMap;

pub fn generate(r: &mut Rng, tier: Tier) -> Scenario {
    let t2 = r.chance(1, if tier == Tier::Quick { 12 } else { 10 });
    let overlap = r.chance(1, 6);
    let (world, g, c, _) = super::draw_world(r, |g, _c| {
        if overlap {
            // shared code with many diagnostics: where a schedule-dependent choice among several
            // functions' exits would show in the output
            g.make_overlap_heavy();
            g.discipline = 2;
            g.undefined_label = false;
            g.duplicate_label = false;
        }
    });
    let mut world = world;
    if r.chance(1, 6) {
        // a file included twice: two identities (random ids) under one file name
        crate::world::include_twice(&mut world, r);
    }
    // now and then the same file is included twice from one place (a snippet without labels of
    // its own keeps the program analysable)
    let mut world = world;
    if world.files.len() > 1 && r.chance(1, 8) {
        let incs: Vec<(String, usize)> = world
            .files
            .iter()
            .flat_map(|(p, t)| crate::world::split_lines(t).iter().enumerate().filter(|(_, l)| crate::world::parse_include(l).is_some()).map(|(i, _)| (p.clone(), i)).collect::<Vec<_>>())
            .collect();
        if !incs.is_empty() {
            let (p, line) = r.pick(&incs).clone();
            if let Some(t) = world.files.get(&p).cloned() {
                let mut ls: Vec<String> = crate::world::split_lines(&t).iter().map(|s| (*s).to_string()).collect();
                let mut dup = ls[line].clone();
                if r.chance(1, 2) {
                    // the second inclusion spells the path differently
                    if let Some(name) = crate::world::parse_include(&dup).map(str::to_string) {
                        let alt = name.strip_prefix("./").map_or_else(|| format!("./{name}"), str::to_string);
                        dup = dup.replacen(&format!("\"{name}\""), &format!("\"{alt}\""), 1);
                    }
                }
                ls.insert(line + 1, dup);
                let mut nt = ls.join("\n");
                if t.ends_with('\n') {
                    nt.push('\n');
                }
                world.files.insert(p, nt);
            }
        }
    }
    let k = if t2 {
        if tier == Tier::Quick { 4 } else { 8 }
    } else if tier == Tier::Quick {
        6
    } else {
        24
    };
    let entropy: Vec<u64> = (0..k).map(|_| r.next_u64() >> 11).collect();
    let personality = if world.files.len() > 1 { *r.pick(&[Personality::Strict, Personality::Fresh, Personality::SameId, Personality::Lsp]) } else { *r.pick(&[Personality::Strict, Personality::Lsp]) };
    let t2spec = if t2 {
        let mut modes: Vec<Vec<String>> = Vec::new();
        for base in [vec!["--json"], vec!["--compact", "--no-color"], vec!["--no-color"], vec!["--yaml", "--no-color"], vec!["--debug", "--no-color"]] {
            let mut m: Vec<String> = base.iter().map(|s| (*s).to_string()).collect();
            modes.push(m.clone());
            if world.files.len() > 1 {
                m.push("--all-files".into());
                modes.push(m);
            }
        }
        Some(T2Spec { modes, plan: vec![], profile: "dev".into(), force_color: false, raw_base_name: None, stdout_fault: None })
    } else {
        None
    };
    Scenario {
        property: "C10".into(),
        variant: if t2 { "t2".into() } else { "t1".into() },
        world,
        personality,
        reader_faults: vec![],
        entropy,
        history: vec![],
        t2: t2spec,
        content_faults: vec![],
        expected_levels: std::collections::BTreeMap::new(),
        note: format!("gen={g:?} cut={c:?}"),
    }
}

fn strip_code(v: &[NDiag]) -> Vec<NDiag> {
    v.iter()
        .map(|d| {
            let mut d = d.clone();
            d.code = None;
            d
        })
        .collect()
}

/// Classify the difference between two diagnostic sequences.
fn classify(a: &[NDiag], b: &[NDiag]) -> (String, Vec<String>) {
    let mut sa = a.to_vec();
    let mut sb = b.to_vec();
    sa.sort();
    sb.sort();
    // items only on one side
    let only = |x: &[NDiag], y: &[NDiag]| -> Vec<NDiag> {
        let mut y = y.to_vec();
        let mut out = vec![];
        for d in x {
            if let Some(p) = y.iter().position(|e| e == d) {
                y.remove(p);
            } else {
                out.push(d.clone());
            }
        }
        out
    };
    let oa = only(&sa, &sb);
    let ob = only(&sb, &sa);
    let mut kinds: Vec<String> = oa.iter().chain(ob.iter()).map(|d| super::kind_of_title(&d.title)).collect();
    if sa == sb {
        // same multiset, different order: name the kinds at the first differing position
        let i = a.iter().zip(b).position(|(x, y)| x != y).unwrap_or(0);
        kinds = vec![super::kind_of_title(&a[i].title), super::kind_of_title(&b[i].title)];
        kinds.sort();
        kinds.dedup();
        // order across files vs within a file
        let across = a[i].file != b[i].file;
        if across {
            return ("order-across-files".into(), vec![]);
        }
        return ("order-within-file".into(), kinds);
    }
    kinds.sort();
    kinds.dedup();
    // same items modulo location?
    let strip_loc = |v: &[NDiag]| -> Vec<(String, String, String)> {
        let mut x: Vec<(String, String, String)> = v.iter().map(|d| (d.file.clone(), d.level.clone(), d.title.clone())).collect();
        x.sort();
        x
    };
    if strip_loc(&oa) == strip_loc(&ob) {
        return ("location".into(), kinds);
    }
    if a.len() != b.len() {
        return ("count".into(), kinds);
    }
    ("content".into(), kinds)
}

pub fn duplicates(v: &[NDiag]) -> Vec<&NDiag> {
    let mut seen: BTreeMap<_, usize> = BTreeMap::new();
    let mut out = vec![];
    for d in v {
        let c = seen.entry(d.dup_key()).or_insert(0);
        *c += 1;
        if *c == 2 {
            out.push(d);
        }
    }
    out
}

fn world_features(scn: &Scenario) -> BTreeMap<String, String> {
    let mut f = BTreeMap::new();
    f.insert("files".into(), scn.world.files.len().to_string());
    f
}

pub fn check(scn: &Scenario, stats: &mut Stats) -> Vec<Violation> {
    if scn.t2.is_some() {
        return check_t2(scn, stats);
    }
    let mut out = Vec::new();
    let wh = scn.world.content_hash();
    stats.worlds.insert(wh);
    let mut runs: Vec<(u64, Vec<NDiag>)> = Vec::new();
    let mut coded: Vec<(u64, lint::LintObs)> = Vec::new();
    for (n, &e) in scn.entropy.iter().enumerate() {
        // the library entry point on the first two schedules, the coded pipeline (same code path,
        // exposes codes and the graph) on all of them
        let mut spec = LintSpec::of(scn, e, Api::Coded);
        spec.want_snapshot = true;
        let o = lint::run(&spec);
        stats.inc("t1_incarnations");
        stats.add("imports", o.imports as u64);
        for (k, v) in &o.ticks {
            stats.add(&format!("ticks:{k}"), *v);
        }
        if o.panic.is_some() || o.import_budget_exceeded {
            stats.inc("skipped_crash_or_hang(C06's subject)");
            return out;
        }
        let o_coded = o;
        if n < 2 {
            let spec = LintSpec::of(scn, e, Api::Run);
            let o = lint::run(&spec);
            stats.inc("t1_incarnations");
            if o.panic.is_some() || o.import_budget_exceeded {
                stats.inc("skipped_crash_or_hang(C06's subject)");
                return out;
            }
            runs.push((e, o.diags));
        }
        coded.push((e, o_coded));
    }
    // harness consistency: both entry points, same schedule
    for ((_, r), (_, c)) in runs.iter().zip(&coded) {
        if *r != strip_code(&c.diags) {
            stats.inc("note:run_vs_coded_differ_same_seed");
        }
    }
    // reach probes
    let multi_file = scn.world.files.len() > 1;
    let mut probes = 0;
    if let Some((_, first)) = coded.first() {
        let exit_differs = coded.iter().any(|(_, o)| o.sig.exits != first.sig.exits);
        let key_order_differs = coded.iter().any(|(_, o)| o.sig.fn_key_order != first.sig.fn_key_order);
        let presort_differs = coded.iter().any(|(_, o)| o.sig.presort != first.sig.presort);
        let multi_label = first.snapshot.as_ref().is_some_and(|s| s.funcs.iter().any(|f| f.labels.len() > 1));
        for (name, on) in [
            ("probe:exit_choice_differed", exit_differs),
            ("probe:functions_order_differed", key_order_differs),
            ("probe:presort_order_differed", presort_differs),
            ("probe:multi_label_function", multi_label),
            ("probe:multi_file", multi_file),
        ] {
            if on {
                stats.inc(name);
                probes += 1;
            }
        }
        for (_, o) in &coded {
            if std::env::var("VERIF_DEBUG_SIG").is_ok() {
                eprintln!("SIG {:?} draws={}", o.sig, o.entropy_draws);
            }
            let sig = mix(&[wh, hash_str(&format!("{:?}", o.sig))]);
            stats.signatures.insert(sig);
        }
        if probes > 0 && !first.diags.is_empty() {
            stats.nontrivial_worlds.insert(wh);
        }
        if stats.samples.len() < 3 {
            stats.samples.push(serde_json::json!({
                "variant": "t1", "files": scn.world.files.keys().collect::<Vec<_>>(),
                "base_text": scn.world.files.get(&scn.world.base).map(|t| t.chars().take(600).collect::<String>()),
                "schedules": scn.entropy.len(), "diagnostics": first.diags.iter().map(NDiag::short).take(8).collect::<Vec<_>>(),
                "order_signature": first.sig,
            }));
        }
    }
    let mut feats = world_features(scn);
    if let Some((_, first)) = coded.first() {
        if let Some(s) = &first.snapshot {
            feats.insert("max_labels_per_function".into(), s.funcs.iter().map(|f| f.labels.len()).max().unwrap_or(0).to_string());
            feats.insert("max_returns_per_function".into(), first.sig.exits.len().to_string());
        }
    }
    // (a) same sequence under every schedule
    let mut seqs: Vec<(u64, &str, Vec<NDiag>)> = coded.iter().map(|(e, o)| (*e, "pipeline", o.diags.clone())).collect();
    seqs.extend(runs.iter().map(|(e, d)| (*e, "RVParser::run", d.clone())));
    for chan in ["pipeline", "RVParser::run"] {
        let v: Vec<&(u64, &str, Vec<NDiag>)> = seqs.iter().filter(|s| s.1 == chan).collect();
        let Some((e0, _, d0)) = v.first() else { continue };
        let mut hit = false;
        for (e, _, d) in &v[1..] {
            if d != d0 {
                let (kind, kinds) = classify(d0, d);
                let i = d0.iter().zip(d.iter()).position(|(x, y)| x != y).unwrap_or(d0.len().min(d.len()));
                out.push(Violation {
                    property: "C10".into(),
                    clause: "a:sequence-differs-across-schedules".into(),
                    class: format!("a:{kind}:{}", kinds.iter().take(2).cloned().collect::<Vec<_>>().join("+")),
                    detail: format!(
                        "{chan}: entropy {e0} vs {e}: first difference at item {i}: {} vs {}",
                        d0.get(i).map_or("<none>".into(), NDiag::short),
                        d.get(i).map_or("<none>".into(), NDiag::short)
                    ),
                    features: feats.clone(),
                });
                hit = true;
                break;
            }
        }
        if hit {
            break;
        }
    }
    // same process, second run
    if let Some(&e) = scn.entropy.first() {
        let spec = LintSpec::of(scn, e, Api::RunTwice);
        let o = lint::run(&spec);
        stats.inc("t1_incarnations");
        if o.panic.is_none() {
            if let Some(d2) = &o.diags2 {
                if *d2 != o.diags {
                    let (kind, kinds) = classify(&o.diags, d2);
                    out.push(Violation {
                        property: "C10".into(),
                        clause: "a:sequence-differs-within-process".into(),
                        class: format!("a2:{kind}:{}", kinds.iter().take(2).cloned().collect::<Vec<_>>().join("+")),
                        detail: format!("entropy {e}: two runs on one thread differ"),
                        features: feats.clone(),
                    });
                }
            }
        }
    }
    // (b) no duplicates, under any schedule (codes from the coded channel)
    for (e, o) in &coded {
        let dups = duplicates(&o.diags);
        if let Some(d) = dups.first() {
            let mut f = feats.clone();
            // does the duplicated item sit in a function with several entry labels?
            if let Some(s) = &o.snapshot {
                let in_multi = s.funcs.iter().any(|fu| fu.labels.len() > 1 && fu.nodes.iter().any(|&i| i != crate::snapshot::NONE && s.nodes[i].file == d.file && s.nodes[i].line == d.line));
                f.insert("dup_in_multi_label_function".into(), in_multi.to_string());
            }
            out.push(Violation {
                property: "C10".into(),
                clause: "b:duplicate-diagnostic".into(),
                class: format!("b:duplicate:{}", d.code.clone().unwrap_or_else(|| super::kind_of_title(&d.title))),
                detail: format!("entropy {e}: reported more than once: {}", d.short()),
                features: f,
            });
            break;
        }
    }
    out
}

fn check_t2(scn: &Scenario, stats: &mut Stats) -> Vec<Violation> {
    let mut out = vec![];
    let Some(spec) = &scn.t2 else { return out };
    let wh = scn.world.content_hash();
    stats.worlds.insert(wh);
    let Ok(sb) = t2::Sandbox::new(&scn.world) else {
        stats.inc("harness:sandbox_failed");
        return out;
    };
    let multi_file = scn.world.files.len() > 1;
    let mut any_diff_probe = false;
    for flags in &spec.modes {
        let mut first: Option<(u64, String)> = None;
        for (k, &e) in scn.entropy.iter().enumerate() {
            // separate processes differ in more than their entropy: each names the base file in
            // another way (absolute, relative, ./, from the parent directory, with // and /./)
            let arg_style = (k % 5) as u8;
            stats.inc(&format!("t2_invocation_style:{arg_style}"));
            let call = t2::RvaCall { sandbox: &sb, base: &scn.world.base, flags, entropy: e, plan: &spec.plan, profile: &spec.profile, force_color: false, cpu_seconds: 10, raw_base: None, stdout_fault: None, fifos: vec![], arg_style };
            let Ok(run) = t2::run_rva(&call) else {
                stats.inc("harness:spawn_failed");
                return out;
            };
            stats.inc("t2_runs");
            if run.abnormal().is_some() {
                stats.inc("skipped_crash_or_hang(C06's subject)");
                return out;
            }
            // duplicates in the JSON channel
            if flags.iter().any(|f| f == "--json") {
                if let Ok(v) = serde_json::from_str::<serde_json::Value>(&run.stdout) {
                    if let Some(items) = v.get("diagnostics").and_then(|d| d.as_array()) {
                        let mut seen: Vec<String> = Vec::new();
                        for it in items {
                            let k = it.to_string();
                            if seen.contains(&k) {
                                let title = it.get("title").and_then(|t| t.as_str()).unwrap_or("");
                                out.push(Violation {
                                    property: "C10".into(),
                                    clause: "b:duplicate-diagnostic".into(),
                                    class: format!("b:duplicate:{}", super::kind_of_title(title)),
                                    detail: format!("entropy {e} mode {flags:?}: JSON item reported more than once: {k}"),
                                    features: world_features(scn),
                                });
                                return out;
                            }
                            seen.push(k);
                        }
                    }
                }
            }
            match &first {
                None => first = Some((e, run.stdout)),
                Some((e0, s0)) => {
                    if *s0 != run.stdout {
                        any_diff_probe = true;
                        let la: Vec<&str> = s0.lines().collect();
                        let lb: Vec<&str> = run.stdout.lines().collect();
                        let i = la.iter().zip(&lb).position(|(x, y)| x != y).unwrap_or(la.len().min(lb.len()));
                        let mut sa = la.clone();
                        let mut sbb = lb.clone();
                        sa.sort_unstable();
                        sbb.sort_unstable();
                        let kind = if sa == sbb { "order" } else { "content" };
                        out.push(Violation {
                            property: "C10".into(),
                            clause: "a:stdout-differs-across-processes".into(),
                            class: format!("a:t2:{kind}:{}", if multi_file { "multi-file" } else { "single-file" }),
                            detail: format!("mode {flags:?}: entropy {e0} vs {e}: stdout differs at line {}: `{}` vs `{}`", i + 1, la.get(i).unwrap_or(&""), lb.get(i).unwrap_or(&"")),
                            features: world_features(scn),
                        });
                        return out;
                    }
                }
            }
        }
        if stats.samples.len() < 2 {
            if let Some((_, s)) = &first {
                stats.samples.push(serde_json::json!({"variant": "t2", "mode": flags, "files": scn.world.files.keys().collect::<Vec<_>>(), "stdout_head": s.chars().take(400).collect::<String>()}));
            }
        }
    }
    let _ = any_diff_probe;
    if multi_file {
        stats.inc("probe:multi_file");
        stats.nontrivial_worlds.insert(wh);
    }
    out
}
