//! C18 — all output channels report the same diagnostics, well-formed and ordered (DESIGN.md §5.7).
//!
//! All modes of one world run under the *same* entropy seed, so any remaining difference between
//! channels is the printer's, not the schedule's.

use crate::lint::{self, Api, LintSpec};
use crate::rng::Rng;
use crate::scenario::{Scenario, Stats, T2Spec, Tier, Violation};
use crate::t2;
use crate::world::split_lines;
use std::collections::BTreeMap;

/// (level, title, path, line1, col1, endcol1)
type Item = (String, String, String, usize, usize, usize);


/// not included by anything: the target of the TOCTOU redirect
pub const TOCTOU_FILE: &str = "zz_rewritten.s";

pub fn all_modes() -> Vec<Vec<String>> {
    let mut v = Vec::new();
    for bits in 0..16u32 {
        let mut m = Vec::new();
        if bits & 1 != 0 {
            m.push("--json".to_string());
        }
        if bits & 2 != 0 {
            m.push("--compact".to_string());
        }
        if bits & 4 != 0 {
            m.push("--no-color".to_string());
        }
        if bits & 8 != 0 {
            m.push("--all-files".to_string());
        }
        v.push(m);
    }
    v
}

pub fn generate(r: &mut Rng, tier: Tier) -> Scenario {
    let (world, g, c, _) = super::draw_world(r, |g, _c| {
        // parse errors, CFG errors and lints mixed
        g.parse_errors = g.parse_errors || r_is(g.body_items, 3);
    });
    let k = if tier == Tier::Quick { 1 } else { 3 };
    let entropy: Vec<u64> = (0..k).map(|_| r.next_u64() >> 11).collect();
    let mut world = world;
    if r.chance(1, 6) && crate::world::include_twice(&mut world, r) {
        // (a file included twice: its two copies are one file name with two identities)
    }
    if r.chance(1, 3) {
        // what a file looks like after somebody rewrote it while the analyzer was running: the
        // printer's re-open (if it re-opens at all) is redirected here (TOCTOU)
        let base_text = world.files.get(&world.base).cloned().unwrap_or_default();
        world.files.insert(TOCTOU_FILE.to_string(), format!("# this text was never analysed
# nor was this
{base_text}"));
    }
    Scenario {
        property: "C18".into(),
        variant: "t2-channels".into(),
        world,
        personality: crate::reader::Personality::Fresh,
        reader_faults: vec![],
        entropy,
        history: vec![],
        t2: Some(T2Spec { modes: all_modes(), plan: vec![], profile: "dev".into(), force_color: true, raw_base_name: None, stdout_fault: None }),
        content_faults: vec![],
        expected_levels: std::collections::BTreeMap::new(),
        note: format!("gen={g:?} cut={c:?}"),
    }
}

fn r_is(a: usize, b: usize) -> bool {
    a % b == 0
}

pub fn strip_ansi(s: &str) -> String {
    let mut out = String::with_capacity(s.len());
    let mut it = s.chars().peekable();
    while let Some(c) = it.next() {
        if c == '\u{1b}' && it.peek() == Some(&'[') {
            it.next();
            for d in it.by_ref() {
                if d.is_ascii_alphabetic() {
                    break;
                }
            }
        } else {
            out.push(c);
        }
    }
    out
}

struct JsonItem {
    item: Item,
    raw: usize,
    line0: usize,
    col0: usize,
    endcol0: usize,
}

fn parse_json(out: &str) -> Result<Vec<JsonItem>, String> {
    let v: serde_json::Value = serde_json::from_str(out).map_err(|e| format!("stdout is not valid JSON: {e}"))?;
    let obj = v.as_object().ok_or("top level is not an object")?;
    if obj.len() != 1 || !obj.contains_key("diagnostics") {
        return Err(format!("top-level keys are {:?}, expected exactly [diagnostics]", obj.keys().collect::<Vec<_>>()));
    }
    let arr = obj["diagnostics"].as_array().ok_or("diagnostics is not an array")?;
    let mut items = Vec::new();
    for it in arr {
        let o = it.as_object().ok_or("item is not an object")?;
        let mut keys: Vec<&str> = o.keys().map(String::as_str).collect();
        keys.sort_unstable();
        if keys != ["description", "file", "level", "range", "title"] {
            return Err(format!("item keys are {keys:?}"));
        }
        let s = |k: &str| o[k].as_str().map(str::to_string).ok_or(format!("{k} is not a string"));
        let file = match &o["file"] {
            serde_json::Value::String(s) => s.clone(),
            serde_json::Value::Null => "<null>".to_string(),
            _ => return Err("file is neither string nor null".into()),
        };
        let pos = |which: &str| -> Result<(usize, usize, usize), String> {
            let p = o["range"].get(which).and_then(|p| p.as_object()).ok_or(format!("range.{which} missing"))?;
            let mut k: Vec<&str> = p.keys().map(String::as_str).collect();
            k.sort_unstable();
            if k != ["column", "line", "raw"] {
                return Err(format!("range.{which} keys are {k:?}"));
            }
            let n = |f: &str| p[f].as_u64().map(|x| x as usize).ok_or(format!("range.{which}.{f} is not a non-negative integer"));
            Ok((n("line")?, n("column")?, n("raw")?))
        };
        if o["range"].as_object().map(|r| r.len()) != Some(2) {
            return Err("range does not have exactly start and end".into());
        }
        let (sl, sc, sraw) = pos("start")?;
        let (_el, ec, _eraw) = pos("end")?;
        let level = s("level")?;
        if !["Error", "Warning", "Info", "Hint"].contains(&level.as_str()) {
            return Err(format!("level `{level}` is not one of Error/Warning/Info/Hint"));
        }
        let _ = s("description")?;
        items.push(JsonItem { item: (level, s("title")?, file, sl + 1, sc + 1, ec + 1), raw: sraw, line0: sl, col0: sc, endcol0: ec });
    }
    Ok(items)
}

/// The file as a channel prints it. All channels must name a file the same way (since repair
/// 565cf5e the reader keeps one canonical name per file); only a diagnostic that is attached to no
/// file has two spellings: `<unknown file>` in compact/pretty, `null` in JSON.
fn norm_path(p: &str) -> String {
    if p == "<unknown file>" {
        return "<null>".into();
    }
    p.to_string()
}

fn parse_trailer(line: &str) -> Option<usize> {
    let (n, rest) = line.split_once(' ')?;
    let n: usize = n.parse().ok()?;
    let want = if n > 1 { "diagnostics found in other files." } else { "diagnostic found in other files." };
    rest.starts_with(want).then_some(n)
}

fn parse_compact(out: &str) -> Result<(Vec<Item>, Option<usize>), String> {
    let mut items = Vec::new();
    let mut trailer = None;
    for line in out.lines() {
        if let Some(n) = parse_trailer(line) {
            trailer = Some(n);
            continue;
        }
        // {level}: {title} in {path} at {line} {start}:{end}
        let (head, pos) = line.rsplit_once(" at ").ok_or(format!("compact line without ` at `: `{line}`"))?;
        let (ln, cols) = pos.split_once(' ').ok_or(format!("bad position in `{line}`"))?;
        let (sc, ec) = cols.split_once(':').ok_or(format!("bad columns in `{line}`"))?;
        let (lt, path) = head.rsplit_once(" in ").ok_or(format!("compact line without ` in `: `{line}`"))?;
        let (level, title) = lt.split_once(": ").ok_or(format!("compact line without level: `{line}`"))?;
        let p = |s: &str| s.parse::<usize>().map_err(|_| format!("not a number `{s}` in `{line}`"));
        items.push((level.to_string(), title.to_string(), norm_path(path), p(ln)?, p(sc)?, p(ec)?));
    }
    Ok((items, trailer))
}

struct PrettyItem {
    level: String,
    title: String,
    path: String,
    /// (line number, excerpt text, caret line after "<spc> | ")
    region: Option<(usize, String, String)>,
}

fn parse_pretty(out: &str) -> Result<(Vec<PrettyItem>, Option<usize>), String> {
    let lines: Vec<&str> = out.split('\n').collect();
    let mut i = 0;
    let mut items = Vec::new();
    let mut trailer = None;
    while i < lines.len() {
        let l = lines[i];
        if l.is_empty() && i + 1 == lines.len() {
            break;
        }
        if let Some(n) = parse_trailer(l) {
            trailer = Some(n);
            i += 1;
            continue;
        }
        let (level, title) = l.split_once(": ").ok_or(format!("pretty: expected `<level>: <title>` at output line {}: `{l}`", i + 1))?;
        if !["Error", "Warning", "Info", "Hint"].contains(&level) {
            return Err(format!("pretty: unknown level `{level}` at output line {}", i + 1));
        }
        let path = lines.get(i + 1).and_then(|p| p.strip_prefix(" in file: ")).ok_or(format!("pretty: missing ` in file:` after output line {}", i + 1))?;
        i += 2;
        let mut region = None;
        if lines.get(i).is_some_and(|x| x.trim_start().starts_with('|') && x.trim() == "|") {
            let l2 = lines.get(i + 1).ok_or("pretty: truncated region")?;
            let l3 = lines.get(i + 2).ok_or("pretty: truncated region")?;
            let (num, text) = l2.trim_start().split_once(" | ").or_else(|| l2.trim_start().split_once(" |")).ok_or(format!("pretty: bad excerpt line `{l2}`"))?;
            let n: usize = num.trim().parse().map_err(|_| format!("pretty: bad line number in `{l2}`"))?;
            let caret = l3.split_once("| ").map(|(_, c)| c.to_string()).or_else(|| l3.split_once('|').map(|(_, c)| c.to_string())).ok_or(format!("pretty: bad caret line `{l3}`"))?;
            // the three rows of a region share one gutter: their bars stand in one column, so that
            // the marker row lines up with the source row
            let bar = |r: &str| r.find('|');
            if bar(lines[i]) != bar(l2) || bar(l3) != bar(l2) {
                return Err(format!("pretty: the gutter bars of an excerpt are not aligned: `{}` / `{l2}` / `{l3}`", lines[i]));
            }
            region = Some((n, text.to_string(), caret));
            i += 3;
        }
        if lines.get(i) != Some(&"") {
            return Err(format!("pretty: item not followed by a blank line at output line {}", i + 1));
        }
        i += 1;
        items.push(PrettyItem { level: level.to_string(), title: title.to_string(), path: norm_path(path), region });
    }
    Ok((items, trailer))
}

fn viol(clause: &str, class: String, detail: String) -> Violation {
    Violation { property: "C18".into(), clause: clause.into(), class, detail, features: BTreeMap::new() }
}

fn mode_name(m: &[String]) -> String {
    if m.is_empty() {
        "pretty".into()
    } else {
        m.join(" ")
    }
}

pub fn check(scn: &Scenario, stats: &mut Stats) -> Vec<Violation> {
    let mut out = Vec::new();
    let Some(spec) = &scn.t2 else { return out };
    let wh = scn.world.content_hash();
    stats.worlds.insert(wh);
    let Ok(sb) = t2::Sandbox::new(&scn.world) else {
        stats.inc("harness:sandbox_failed");
        return out;
    };
    let base_path = format!("<ROOT>/{}", scn.world.base);
    let mut table: BTreeMap<String, String> = scn.expected_levels.clone();
    for &e in &scn.entropy {
        let run = |flags: &[String], color: bool| {
            t2::run_rva(&t2::RvaCall { sandbox: &sb, base: &scn.world.base, flags, entropy: e, plan: &spec.plan, profile: &spec.profile, force_color: color, cpu_seconds: 10, raw_base: None, stdout_fault: None, fifos: vec![], arg_style: 0 })
        };
        // reference: --json --all-files (every diagnostic of every file)
        let jflags = vec!["--json".to_string(), "--all-files".to_string()];
        let Ok(jr) = run(&jflags, false) else {
            stats.inc("harness:spawn_failed");
            return out;
        };
        stats.inc("t2_runs");
        if jr.abnormal().is_some() {
            stats.inc("skipped_crash_or_hang(C06's subject)");
            return out;
        }
        let reference = match parse_json(&jr.stdout) {
            Ok(r) => r,
            Err(why) => {
                out.push(viol("json-shape", "json-shape".into(), format!("entropy {e}: {why}")));
                return out;
            }
        };
        let r_all: Vec<Item> = reference.iter().map(|j| j.item.clone()).collect();
        // the base-file selection: the items of the base file and those that belong to no file at
        // all (the analysis of the whole program failed) - the latter are not "in other files"
        let r_base: Vec<Item> = r_all.iter().filter(|i| i.2 == base_path || i.2 == "<null>").cloned().collect();
        let others = r_all.len() - r_base.len();
        // titles, levels
        for j in &reference {
            if j.item.1.trim().is_empty() {
                out.push(viol("empty-title", "empty-title".into(), format!("entropy {e}: a diagnostic has an empty title at {}:{}", j.item.2, j.item.3)));
                return out;
            }
            // severity is fixed for a kind: within this scenario, and against what other runs of the
            // batch saw (the driver compares runs through the `level:` counters and, on a conflict,
            // hands the other run's severity in through `expected_levels`)
            let kind = super::kind_of_title(&j.item.1);
            stats.inc(&format!("level:{kind}={}", j.item.0));
            let prev = table.entry(kind.clone()).or_insert_with(|| j.item.0.clone());
            if *prev != j.item.0 {
                out.push(viol("severity-not-fixed", format!("severity-not-fixed:{kind}"), format!("kind `{kind}` seen with severity {prev} and {}", j.item.0)));
                return out;
            }
        }
        // sorted by position within each file
        let mut last: BTreeMap<&str, usize> = BTreeMap::new();
        for j in &reference {
            let l = last.entry(j.item.2.as_str()).or_insert(0);
            if j.raw < *l {
                out.push(viol("not-sorted-within-file", "not-sorted-within-file".into(), format!("entropy {e}: {}: offset {} after {}", j.item.2, j.raw, *l)));
                return out;
            }
            *l = j.raw;
        }
        let multi = scn.world.files.len() > 1 && others > 0;
        if multi {
            stats.inc("probe:items_in_other_files");
        }
        if !r_all.is_empty() {
            stats.nontrivial_worlds.insert(wh);
        }
        stats.add("items_compared", r_all.len() as u64);

        let mut plain_out: BTreeMap<String, String> = BTreeMap::new();
        for flags in &spec.modes {
            let is_json = flags.iter().any(|f| f == "--json");
            let compact = flags.iter().any(|f| f == "--compact");
            let no_color = flags.iter().any(|f| f == "--no-color");
            let all = flags.iter().any(|f| f == "--all-files");
            let Ok(r) = run(flags, spec.force_color && !no_color) else {
                stats.inc("harness:spawn_failed");
                return out;
            };
            stats.inc("t2_runs");
            if r.abnormal().is_some() {
                stats.inc("skipped_crash_or_hang(C06's subject)");
                return out;
            }
            let mname = mode_name(flags);
            if is_json {
                // the JSON channel lists the items of its selection (base file only, or all
                // files), whatever other flags are given
                if all {
                    if r.stdout != jr.stdout {
                        out.push(viol("json-affected-by-other-flags", "json-affected-by-other-flags".into(), format!("entropy {e}: `{mname}` differs from `--json --all-files`")));
                        return out;
                    }
                } else {
                    match parse_json(&r.stdout) {
                        Err(why) => {
                            out.push(viol("json-shape", "json-shape".into(), format!("entropy {e}: `{mname}`: {why}")));
                            return out;
                        }
                        Ok(items) => {
                            let got: Vec<Item> = items.iter().map(|j| j.item.clone()).collect();
                            if got != r_base {
                                let i = got.iter().zip(&r_base).position(|(a, b)| a != b).unwrap_or(got.len().min(r_base.len()));
                                out.push(viol(
                                    "channels-disagree",
                                    "channels-disagree:json:base-file-selection".into(),
                                    format!("entropy {e}: `{mname}` (base file only) vs the base-file items of --json --all-files at item {i}: {:?} vs {:?} ({} vs {} items)", got.get(i), r_base.get(i), got.len(), r_base.len()),
                                ));
                                return out;
                            }
                            stats.inc("json_base_selection_checked");
                        }
                    }
                }
                continue;
            }
            if no_color && !compact {
                plain_out.insert(mname.clone(), r.stdout.clone());
            }
            let text = if no_color {
                if r.stdout.contains('\u{1b}') {
                    out.push(viol("no-color-has-escapes", "no-color-has-escapes".into(), format!("entropy {e}: `{mname}` output contains ANSI escapes")));
                    return out;
                }
                r.stdout.clone()
            } else {
                if !r_all.is_empty() && (all || !r_base.is_empty()) && spec.force_color && !r.stdout.contains('\u{1b}') {
                    stats.inc("note:colour_mode_without_escapes");
                }
                strip_ansi(&r.stdout)
            };
            let expect: &Vec<Item> = if all { &r_all } else { &r_base };
            let expect_trailer = if all || others == 0 { None } else { Some(others) };
            if compact {
                match parse_compact(&text) {
                    Err(why) => {
                        out.push(viol("compact-malformed", "compact-malformed".into(), format!("entropy {e}: `{mname}`: {why}")));
                        return out;
                    }
                    Ok((items, trailer)) => {
                        if &items != expect {
                            let i = items.iter().zip(expect).position(|(a, b)| a != b).unwrap_or(items.len().min(expect.len()));
                            out.push(viol(
                                "channels-disagree",
                                format!("channels-disagree:compact{}", if all { ":all-files" } else { "" }),
                                format!("entropy {e}: `{mname}` vs --json at item {i}: {:?} vs {:?} ({} vs {} items)", items.get(i), expect.get(i), items.len(), expect.len()),
                            ));
                            return out;
                        }
                        if trailer != expect_trailer {
                            out.push(viol("other-files-count", "other-files-count".into(), format!("entropy {e}: `{mname}`: trailer says {trailer:?}, expected {expect_trailer:?}")));
                            return out;
                        }
                    }
                }
            } else {
                match parse_pretty(&text) {
                    Err(why) => {
                        out.push(viol("pretty-malformed", "pretty-malformed".into(), format!("entropy {e}: `{mname}`: {why}")));
                        return out;
                    }
                    Ok((items, trailer)) => {
                        let got: Vec<(String, String, String)> = items.iter().map(|p| (p.level.clone(), p.title.clone(), p.path.clone())).collect();
                        let want: Vec<(String, String, String)> = expect.iter().map(|i| (i.0.clone(), i.1.clone(), i.2.clone())).collect();
                        if got != want {
                            let i = got.iter().zip(&want).position(|(a, b)| a != b).unwrap_or(got.len().min(want.len()));
                            out.push(viol(
                                "channels-disagree",
                                format!("channels-disagree:pretty{}", if all { ":all-files" } else { "" }),
                                format!("entropy {e}: `{mname}` vs --json at item {i}: {:?} vs {:?} ({} vs {} items)", got.get(i), want.get(i), got.len(), want.len()),
                            ));
                            return out;
                        }
                        if trailer != expect_trailer {
                            out.push(viol("other-files-count", "other-files-count".into(), format!("entropy {e}: `{mname}`: trailer says {trailer:?}, expected {expect_trailer:?}")));
                            return out;
                        }
                        // excerpts and carets
                        let refs: Vec<&JsonItem> = reference.iter().filter(|j| all || j.item.2 == base_path || j.item.2 == "<null>").collect();
                        for (p, j) in items.iter().zip(refs) {
                            let rel = j.item.2.strip_prefix("<ROOT>/").unwrap_or(&j.item.2);
                            let Some(ftext) = scn.world.files.get(rel) else { continue };
                            let flines: Vec<&str> = ftext.split('\n').collect();
                            let Some(src) = flines.get(j.line0) else {
                                if p.region.is_some() {
                                    out.push(viol("excerpt", "excerpt:line-out-of-file".into(), format!("entropy {e}: `{mname}`: excerpt shown for line {} which the file does not have", j.line0 + 1)));
                                    return out;
                                }
                                continue;
                            };
                            let Some((n, shown, caret)) = &p.region else {
                                out.push(viol("excerpt", "excerpt:missing".into(), format!("entropy {e}: `{mname}`: no excerpt for {}:{} `{}`", j.item.2, j.line0 + 1, j.item.1)));
                                return out;
                            };
                            stats.inc("excerpts_checked");
                            if *n != j.line0 + 1 {
                                out.push(viol("excerpt", "excerpt:line-number".into(), format!("entropy {e}: `{mname}`: excerpt is numbered {n}, the diagnostic is on line {}", j.line0 + 1)));
                                return out;
                            }
                            if shown.trim_end() != src.trim() {
                                out.push(viol("excerpt", "excerpt:text".into(), format!("entropy {e}: `{mname}`: excerpt `{shown}` is not line {} of {}: `{}`", j.line0 + 1, rel, src.trim())));
                                return out;
                            }
                            // marker under the reported columns (after the same left-trim)
                            let lead = src.chars().take_while(|c| c.is_whitespace()).count();
                            let is_ascii = src.is_ascii();
                            if is_ascii && j.col0 >= lead && j.endcol0 >= j.col0 {
                                let off = j.col0 - lead;
                                let len = j.endcol0 + 1 - j.col0;
                                let start_ok = caret.chars().take(off).all(|c| c != '^') && caret.chars().skip(off).take(len).all(|c| c == '^');
                                let total = caret.chars().filter(|c| *c == '^').count();
                                if !(start_ok && total == len) {
                                    out.push(viol(
                                        "caret",
                                        "caret:geometry".into(),
                                        format!("entropy {e}: `{mname}`: {}:{} cols {}..{}: marker `{caret}` under `{shown}` (expected {len} carets at offset {off})", rel, j.line0 + 1, j.col0 + 1, j.endcol0 + 1),
                                    ));
                                    return out;
                                }
                                stats.inc("carets_checked");
                            }
                        }
                        let _ = split_lines;
                    }
                }
            }
        }

        // the file changes on disk between the analysis and the output (TOCTOU): every open after
        // the ones the analysis itself made is redirected to other text; the excerpts must still
        // show the lines that were analysed, so the output must not change at all
        if scn.world.files.contains_key(TOCTOU_FILE) && !r_all.is_empty() {
            let analysis_opens = jr.log.lines().filter(|l| l.starts_with("open ")).count();
            for flags in [vec!["--no-color".to_string()], vec!["--no-color".to_string(), "--all-files".to_string()]] {
                let Some(clean) = plain_out.get(&mode_name(&flags)) else { continue };
                let plan: Vec<String> = (1..=4).map(|k| format!("open:{}:redirect:@/{TOCTOU_FILE}", analysis_opens + k)).collect();
                let Ok(r) = t2::run_rva(&t2::RvaCall { sandbox: &sb, base: &scn.world.base, flags: &flags, entropy: e, plan: &plan, profile: &spec.profile, force_color: false, cpu_seconds: 10, raw_base: None, stdout_fault: None, fifos: vec![], arg_style: 0 }) else {
                    stats.inc("harness:spawn_failed");
                    return out;
                };
                stats.inc("t2_runs");
                if r.abnormal().is_some() {
                    stats.inc("skipped_crash_or_hang(C06's subject)");
                    return out;
                }
                let fired = r.log.lines().filter(|l| l.contains("FAULT redirect")).count();
                stats.add("fault:fs:toctou-redirect-fired", fired as u64);
                stats.inc("toctou_runs");
                if r.stdout != *clean {
                    let (a, b): (Vec<&str>, Vec<&str>) = (r.stdout.lines().collect(), clean.lines().collect());
                    let i = a.iter().zip(&b).position(|(x, y)| x != y).unwrap_or(a.len().min(b.len()));
                    out.push(viol(
                        "excerpt",
                        "excerpt:text-not-analysed(file-rewritten-before-output)".into(),
                        format!("entropy {e}: `{}` with the file rewritten after the analysis read it ({fired} re-open(s) redirected): output line {} is `{}`, without the rewrite `{}`", mode_name(&flags), i + 1, a.get(i).unwrap_or(&""), b.get(i).unwrap_or(&"")),
                    ));
                    return out;
                }
            }
        }

        // library channel (editor integration): RVParser::run on the same world, in process
        // ... served by the editor integration's own reader
        let mut lspec = LintSpec::new(&scn.world, e, Api::Run);
        lspec.reader = lint::ReaderKind::Lsp;
        let lo = lint::run(&lspec);
        stats.inc("t1_incarnations");
        if lo.panic.is_none() {
            let mut lib: Vec<Item> = lo.diags.iter().map(|d| (d.level.clone(), d.title.clone(), if d.file == "<nil>" || d.file == "<unknown>" { "<null>".to_string() } else { format!("<ROOT>/{}", d.file) }, d.line + 1, d.col + 1, d.end_col + 1)).collect();
            // order within a file must agree; order across files is compared as produced (both sort by name)
            let mut a = lib.clone();
            let mut b = r_all.clone();
            a.sort();
            b.sort();
            if a != b {
                let i = a.iter().zip(&b).position(|(x, y)| x != y).unwrap_or(a.len().min(b.len()));
                out.push(viol("channels-disagree", "channels-disagree:library".into(), format!("entropy {e}: RVParser::run vs --json (as multisets) at {i}: {:?} vs {:?} ({} vs {} items)", a.get(i), b.get(i), a.len(), b.len())));
                return out;
            }
            for f in scn.world.files.keys() {
                let p = format!("<ROOT>/{f}");
                let x: Vec<&Item> = lib.iter().filter(|i| i.2 == p).collect();
                let y: Vec<&Item> = r_all.iter().filter(|i| i.2 == p).collect();
                if x != y {
                    out.push(viol("channels-disagree", "channels-disagree:library-order".into(), format!("entropy {e}: RVParser::run and --json order the items of {f} differently")));
                    return out;
                }
            }
            lib.clear();
        }
        if stats.samples.len() < 3 {
            stats.samples.push(serde_json::json!({
                "files": scn.world.files.keys().collect::<Vec<_>>(), "entropy": e, "modes": spec.modes.len(),
                "items_all_files": r_all.len(), "items_base_file": r_base.len(),
                "first_items": r_all.iter().take(5).collect::<Vec<_>>(),
            }));
        }
    }
    out
}
