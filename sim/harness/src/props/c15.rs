//! C15 — `.include` behaves as textual inclusion with per-file locations (DESIGN.md §5.6).
//!
//! Reference model: paste every included file in place of its directive (a failed include pastes
//! as an empty line) and run the *same analyzer* on the single pasted file; map its diagnostics
//! back through the line map.

use crate::lint::{self, Api, LintObs, LintSpec, NDiag};
use crate::reader::{FaultKind, Personality, ReaderFault};
use crate::rng::Rng;
use crate::scenario::{Scenario, Stats, T2Spec, Tier, Violation};
use crate::t2;
use crate::world::{self, dir_of, parse_include, resolve, split_lines, PastedLine, World};
use std::collections::BTreeMap;

/// (file, line0, col0, endcol0, level, title, description)
type Key = (String, usize, usize, usize, String, String, String);

pub fn generate(r: &mut Rng, tier: Tier) -> Scenario {
    // one run in sixteen drives the tail variant; decided on a copy of the generator so that all
    // other runs draw exactly what they drew before the variant existed
    if r.clone().next_u64() % 16 == 5 {
        return generate_tail(r, tier);
    }
    let t2 = r.chance(1, 8);
    let multiline = r.chance(1, 4);
    let (mut world, g, c, _) = super::draw_world(r, |g, c| {
        // statements that span lines, so that a cut can fall inside one
        g.multiline = multiline;
        if multiline {
            g.data = true;
        }
        if c.includes == 0 {
            c.includes = 1;
        }
    });
    // extra world shapes
    let shape = r.below(12);
    let mut shape_note = "plain";
    let includes: Vec<(String, usize, String)> = world
        .files
        .iter()
        .flat_map(|(p, t)| split_lines(t).iter().enumerate().filter_map(|(i, l)| parse_include(l).map(|x| (p.clone(), i, x.to_string()))).collect::<Vec<_>>())
        .collect();
    // A macro definition swallows everything up to its end, directives included, and it may have
    // begun in an included file: in worlds with macros no directive is added after the cutting.
    let has_macro = world.files.values().any(|t| t.contains(".macro"));
    let shape = if has_macro && matches!(shape, 1..=3) { 11 } else { shape };
    match shape {
        0 if !includes.is_empty() => {
            // missing file
            let (p, _, rel) = r.pick(&includes).clone();
            if let Some(t) = resolve(dir_of(&p), &rel) {
                world.files.remove(&t);
                shape_note = "missing-file";
            }
        }
        1 => {
            // self include at the end of some file
            let paths: Vec<String> = world.files.keys().cloned().collect();
            let p = r.pick(&paths).clone();
            let name = p.rsplit('/').next().unwrap_or(&p).to_string();
            if let Some(t) = world.files.get(&p).cloned() {
                world.files.insert(p, insert_line(&t, &format!(".include \"{name}\""), r));
                shape_note = "self-include";
            }
        }
        2 if !includes.is_empty() => {
            // child includes its parent (2-cycle)
            let (p, _, rel) = r.pick(&includes).clone();
            if let Some(child) = resolve(dir_of(&p), &rel) {
                let back = world::relative(dir_of(&child), &p);
                if let Some(t) = world.files.get(&child).cloned() {
                    world.files.insert(child, insert_line(&t, &format!(".include \"{back}\""), r));
                    shape_note = "two-cycle";
                }
            }
        }
        3 if !includes.is_empty() => {
            // the same file included twice from one place
            let (p, line, _) = r.pick(&includes).clone();
            if let Some(t) = world.files.get(&p).cloned() {
                let mut ls: Vec<String> = split_lines(&t).iter().map(|s| (*s).to_string()).collect();
                let dup = ls[line].clone();
                ls.insert(line + 1, dup);
                let mut nt = ls.join("\n");
                if t.ends_with('\n') {
                    nt.push('\n');
                }
                world.files.insert(p, nt);
                shape_note = "included-twice";
            }
        }
        _ => {}
    }
    let n_imports = world.include_directives() + 1;
    let mut faults = Vec::new();
    if !t2 && r.chance(1, 2) && n_imports > 1 {
        // fault enumeration is driven from `enumerate_faults` in thorough mode; here: one random fault
        let import = 2 + r.usize(n_imports - 1);
        let kind = r.pick(&FaultKind::ALL).clone();
        faults.push(ReaderFault { import, kind });
        if r.chance(1, 5) {
            let import2 = 2 + r.usize(n_imports - 1);
            if import2 != import {
                faults.push(ReaderFault { import: import2, kind: r.pick(&FaultKind::ALL).clone() });
            }
        }
    }
    let has_cycle = matches!(shape_note, "self-include" | "two-cycle");
    let personality = if faults.is_empty() && !t2 && r.chance(1, 3) {
        // the editor integration's real reader (no seam inside it, so no reader fault plan)
        Personality::Lsp
    } else if has_cycle {
        // a reader that neither refuses nor re-identifies a repeated file cannot be protected against
        // cycles by the parser; the personalities that exist for such input are these two
        *r.pick(&[Personality::Strict, Personality::SameId])
    } else {
        *r.pick(&[Personality::Strict, Personality::Fresh, Personality::SameId])
    };
    let k = if tier == Tier::Quick { 2 } else { 3 };
    let entropy: Vec<u64> = (0..k).map(|_| r.next_u64() >> 11).collect();
    if t2 && !c.subdirs && shape_note == "plain" && r.chance(1, 4) {
        if symlinked_directory(&mut world, r) {
            shape_note = "symlinked-directory";
        }
    }
    if t2 && shape_note != "symlinked-directory" && r.chance(1, 5) {
        // file-system shapes in place of an included file: the include must fail cleanly
        let targets: Vec<String> = world.files.keys().filter(|p| **p != world.base).cloned().collect();
        if !targets.is_empty() {
            let p = r.pick(&targets).clone();
            match r.below(3) {
                0 => {
                    world.special.insert(p, world::Special::Dir);
                }
                1 => {
                    world.special.insert(p, world::Special::Symlink("nowhere.s".into()));
                }
                _ => {
                    world.binary.insert(p, "2020206c692061302c20310aff".into()); // "   li a0, 1\n" + 0xFF
                }
            }
        }
    }
    let t2spec = if t2 {
        let mut plan = vec![];
        if r.chance(1, 3) && n_imports > 1 {
            let n = 2 + r.usize(n_imports - 1);
            let errno = *r.pick(&[2, 13, 5, 24, 40, 21]);
            plan.push(format!("open:{n}:errno:{errno}"));
        }
        if r.chance(1, 3) {
            plan.push(format!("read:*:short:{}", 1 + r.usize(7)));
        }
        if r.chance(1, 3) {
            plan.push(format!("read:*:eintr:{}", 2 + r.usize(3)));
        }
        Some(T2Spec { modes: vec![], plan, profile: "dev".into(), force_color: false, raw_base_name: None, stdout_fault: None })
    } else {
        None
    };
    Scenario {
        property: "C15".into(),
        variant: if t2 { "t2".into() } else { "t1".into() },
        world,
        personality,
        reader_faults: faults,
        entropy,
        history: vec![],
        t2: t2spec,
        content_faults: vec![],
        expected_levels: std::collections::BTreeMap::new(),
        note: format!("shape={shape_note} gen={g:?} cut={c:?}"),
    }
}

/// Put one included file behind a directory symlink: `X` moves to `realK/sub/X`, a link
/// `lnkK -> realK/sub` is created, the directive naming `X` now says `lnkK/X`, the includes written
/// inside `X` get a `../` in front (so `lnkK/../Y` must land in `realK/`, next to the link's target,
/// not next to the link), everything `X` includes moves to `realK/`, and decoys of other content
/// stand at the old top-level names. Returns false if the world has no suitable file.
fn symlinked_directory(world: &mut World, r: &mut Rng) -> bool {
    // (including file, line, name) of top-level includes of top-level files
    let cands: Vec<(String, usize, String)> = world
        .files
        .iter()
        .filter(|(p, _)| !p.contains('/'))
        .flat_map(|(p, t)| split_lines(t).iter().enumerate().filter_map(|(i, l)| parse_include(l).filter(|x| !x.contains('/') && world.files.contains_key(*x)).map(|x| (p.clone(), i, x.to_string()))).collect::<Vec<_>>())
        .collect();
    if cands.is_empty() {
        return false;
    }
    let (parent, line, x) = r.pick(&cands).clone();
    // transitive closure of what X includes (all top-level in such worlds)
    let mut closure: Vec<String> = Vec::new();
    let mut todo = vec![x.clone()];
    while let Some(f) = todo.pop() {
        let Some(t) = world.files.get(&f) else { continue };
        for l in split_lines(t) {
            if let Some(n) = parse_include(l) {
                if n.contains('/') {
                    return false;
                }
                if world.files.contains_key(n) && !closure.contains(&n.to_string()) && n != x {
                    closure.push(n.to_string());
                    todo.push(n.to_string());
                }
            }
        }
    }
    // nothing of it may be included from elsewhere
    for (p, t) in &world.files {
        if *p == x || closure.contains(p) {
            continue;
        }
        for (i, l) in split_lines(t).iter().enumerate() {
            if let Some(n) = parse_include(l) {
                let ours = n == x || closure.iter().any(|c| c == n);
                if ours && !(*p == parent && i == line) {
                    return false;
                }
            }
        }
    }
    let k = r.below(90) + 10;
    let (real, link) = (format!("real{k}"), format!("lnk{k}"));
    // X: its own includes climb out of the link
    let xt = world.files.remove(&x).unwrap_or_default();
    let trailing = xt.ends_with('\n');
    let mut nx: Vec<String> = split_lines(&xt)
        .iter()
        .map(|l| match parse_include(l) {
            Some(n) => l.replacen(&format!("\"{n}\""), &format!("\"../{n}\""), 1),
            None => (*l).to_string(),
        })
        .collect();
    if nx.is_empty() {
        nx.push(String::new());
    }
    let mut nxt = nx.join("\n");
    if trailing {
        nxt.push('\n');
    }
    world.files.insert(format!("{real}/sub/{x}"), nxt);
    for c in &closure {
        if let Some(t) = world.files.remove(c) {
            world.files.insert(format!("{real}/{c}"), t);
            // a decoy of other content where a lexical `..` would look
            world.files.insert(c.clone(), "    li t0, 99\n    frobnicate\n".to_string());
        }
    }
    world.special.insert(link.clone(), world::Special::Symlink(format!("{real}/sub")));
    // the directive in the parent
    if let Some(pt) = world.files.get(&parent).cloned() {
        let trailing = pt.ends_with('\n');
        let mut ls: Vec<String> = split_lines(&pt).iter().map(|s| (*s).to_string()).collect();
        ls[line] = ls[line].replacen(&format!("\"{x}\""), &format!("\"{link}/{x}\""), 1);
        let mut np = ls.join("\n");
        if trailing {
            np.push('\n');
        }
        world.files.insert(parent, np);
    }
    true
}

/// Insert a line at a random line boundary of a text (beginning, middle or end), keeping the
/// text's trailing-newline habit.
fn insert_line(text: &str, line: &str, r: &mut Rng) -> String {
    let trailing = text.ends_with('\n') || text.is_empty();
    let mut ls: Vec<String> = split_lines(text).iter().map(|s| (*s).to_string()).collect();
    // (not in front of a line that continues the statement above it: a directive is a statement)
    let continues = world::statement_continues(&ls);
    let mut at = r.usize(ls.len() + 1);
    while at < ls.len() && continues[at] {
        at += 1;
    }
    ls.insert(at, line.to_string());
    let mut out = ls.join("\n");
    if trailing {
        out.push('\n');
    }
    out
}

/// One include directive met by the depth-first walk, in the order the parser imports them.
#[derive(Clone, Debug)]
pub struct Directive {
    pub file: String,
    pub line: usize,
    pub requested: String,
    pub ok: bool,
}

/// Walk the world the way the parser does, consuming the observed import outcomes (`oks[k]` is
/// whether the k-th include import succeeded). Returns the directives met and the pasted lines.
pub fn walk(world: &World, oks: &[bool]) -> (Vec<Directive>, Vec<PastedLine>) {
    #[allow(clippy::too_many_arguments)]
    fn go(world: &World, path: &str, oks: &[bool], k: &mut usize, dirs: &mut Vec<Directive>, out: &mut Vec<PastedLine>, ancestors: &mut Vec<String>) {
        let Some(text) = world.files.get(path) else { return };
        ancestors.push(path.to_string());
        for (i, l) in split_lines(text).iter().enumerate() {
            if let Some(rel) = parse_include(l) {
                let reader_ok = oks.get(*k).copied().unwrap_or(false);
                *k += 1;
                let target = world.resolve_in(dir_of(path), rel);
                // a reader that hands back a file still being read (same id) is refused by the parser
                let cyclic = target.as_ref().is_some_and(|t| ancestors.contains(t));
                let ok = reader_ok && !cyclic;
                dirs.push(Directive { file: path.to_string(), line: i, requested: rel.to_string(), ok });
                match target {
                    Some(t) if ok && world.files.contains_key(&t) && ancestors.len() < 64 => go(world, &t, oks, k, dirs, out, ancestors),
                    _ => out.push(PastedLine { text: String::new(), file: path.to_string(), line: i }),
                }
            } else {
                out.push(PastedLine { text: (*l).to_string(), file: path.to_string(), line: i });
            }
        }
        ancestors.pop();
    }
    let mut dirs = Vec::new();
    let mut out = Vec::new();
    let mut k = 0;
    go(world, &world.base, oks, &mut k, &mut dirs, &mut out, &mut Vec::new());
    (dirs, out)
}

/// Map a location of the pasted run back to (file, line). The line that *contains* the raw offset
/// decides the file; the distance between the reported line and the containing line is kept (the
/// lexer reports a newline token on the row it starts, i.e. one below the line it ends).
fn map_back(pasted: &[PastedLine], starts: &[usize], line: usize, raw: usize) -> Option<(String, usize)> {
    let containing = match starts.binary_search(&raw) {
        Ok(i) => i,
        Err(i) => i.saturating_sub(1),
    };
    let containing = containing.min(pasted.len().checked_sub(1)?);
    let delta = line as i64 - containing as i64;
    let pl = &pasted[containing];
    let l = pl.line as i64 + delta;
    (l >= 0).then(|| (pl.file.clone(), l as usize))
}

fn line_starts(pasted: &[PastedLine]) -> Vec<usize> {
    let mut v = Vec::with_capacity(pasted.len());
    let mut at = 0;
    for p in pasted {
        v.push(at);
        at += p.text.chars().count() + 1;
    }
    v
}

const PARSE_ERROR_TITLES: [&str; 6] = ["Expected ", "Unexpected token", "Unknown directive", "Unsupported operation", "Invalid string", "Unexpected error"];

/// A file that does not end in a newline and whose last line is not a complete statement: the
/// analyzer drops such a tail silently wherever it occurs (base or included file alike), while the
/// pasted text turns the end of file into an end of line. That is line accounting (C07), not
/// inclusion; parse errors on that tail are left out of the comparison on both sides.
fn is_unterminated_tail(world: &World, k: &Key) -> bool {
    if k.4 != "Error" || !PARSE_ERROR_TITLES.iter().any(|t| k.5.starts_with(t)) {
        return false;
    }
    let unterminated = |t: &str| !(t.ends_with('\n') || t.is_empty());
    let in_the_file_itself = world.files.get(&k.0).is_some_and(|t| {
        if !unterminated(t) {
            return false;
        }
        let last = split_lines(t).len().saturating_sub(1);
        k.1 == last || k.1 == last + 1
    });
    // ... or on the rest of the line that holds the directive: the statement goes on there (the
    // newline that ends it is the one after the directive)
    let on_the_directive_line = world.files.get(&k.0).is_some_and(|t| {
        split_lines(t).iter().enumerate().any(|(i, l)| {
            (k.1 == i || k.1 == i + 1)
                && crate::world::parse_include(l).and_then(|rel| world.resolve_in(dir_of(&k.0), rel)).and_then(|target| world.files.get(&target)).is_some_and(|tt| unterminated(tt))
        })
    });
    in_the_file_itself || on_the_directive_line
}

/// Files pasted more than once: identical items of the two copies are one item for the user
/// (C10: no diagnostic is reported twice), so multiplicity is not compared for such worlds.
fn included_more_than_once(dirs: &[Directive], world: &World) -> bool {
    let mut seen: Vec<String> = Vec::new();
    for d in dirs.iter().filter(|d| d.ok) {
        if let Some(t) = resolve(dir_of(&d.file), &d.requested) {
            if seen.contains(&t) && world.files.contains_key(&t) {
                return true;
            }
            seen.push(t);
        }
    }
    false
}

/// Which includes the LSP reader serves: walk like the parser; a document that exists is served,
/// also when it is an ancestor (the parser refuses that one; `walk` accounts for it).
fn lsp_model_oks(world: &World) -> Vec<bool> {
    fn go(world: &World, path: &str, ancestors: &mut Vec<String>, oks: &mut Vec<bool>) {
        let Some(text) = world.files.get(path) else { return };
        ancestors.push(path.to_string());
        for l in split_lines(text) {
            if let Some(rel) = parse_include(l) {
                let target = resolve(dir_of(path), rel);
                let exists = target.as_ref().is_some_and(|t| world.files.contains_key(t));
                oks.push(exists);
                if let Some(t) = target {
                    if exists && !ancestors.contains(&t) && ancestors.len() < 64 {
                        go(world, &t, ancestors, oks);
                    }
                }
            }
        }
        ancestors.pop();
    }
    let mut oks = Vec::new();
    go(world, &world.base, &mut Vec::new(), &mut oks);
    oks
}

fn key(d: &NDiag) -> Key {
    (d.file.clone(), d.line, d.col, d.end_col, d.level.clone(), d.title.clone(), d.description.clone())
}

fn include_error_title(kind: &str) -> &'static str {
    match kind {
        k if k.starts_with("IOErr") => "IO Error",
        k if k.starts_with("InvalidPath") => "File not found",
        k if k.starts_with("FileAlreadyRead") => "Cyclic dependency",
        _ => "Unexpected error",
    }
}

fn viol(clause: &str, class: String, detail: String, feats: &BTreeMap<String, String>) -> Violation {
    Violation { property: "C15".into(), clause: clause.into(), class, detail, features: feats.clone() }
}

/// The first-line quirk of the pasted side: a line that is line 0 of its own file but not of the
/// pasted file (or the reverse) — kept as a feature for triage, not as an excuse.
fn first_line_involved(k: &Key, pasted: &[PastedLine]) -> bool {
    k.1 == 0 || pasted.first().is_some_and(|p| p.file == k.0 && p.line == k.1)
}

pub fn check(scn: &Scenario, stats: &mut Stats) -> Vec<Violation> {
    if scn.variant == "t1-tail" {
        return check_tail(scn, stats);
    }
    if scn.t2.is_some() {
        return check_t2(scn, stats);
    }
    let mut out = Vec::new();
    let wh = scn.world.content_hash();
    stats.worlds.insert(wh);
    let Some(&e0) = scn.entropy.first() else { return out };
    let mut feats = BTreeMap::new();
    feats.insert("personality".into(), format!("{:?}", scn.personality));
    feats.insert("faults".into(), scn.reader_faults.iter().map(|f| f.kind.name()).collect::<Vec<_>>().join("+"));

    let spec = LintSpec::of(scn, e0, Api::Coded);
    let is_lsp = scn.personality == Personality::Lsp;
    let split = lint::run(&spec);
    stats.inc("t1_incarnations");
    stats.add("imports", split.imports as u64);
    for (_, k) in &split.fired {
        stats.inc(&format!("fault:reader:{k}"));
    }
    if let Some(p) = &split.panic {
        // termination clause: a crash on a world with includes is reported here as well as by C06
        out.push(viol("terminates", format!("panic:{}", p.location), format!("split run panicked: {} at {}", p.message, p.location), &feats));
        return out;
    }
    if split.import_budget_exceeded {
        out.push(viol("terminates", "import-budget-exceeded".into(), format!("the include loop did not stop: {} imports for {} directives", split.imports, scn.world.include_directives()), &feats));
        return out;
    }
    if split.imports <= 1 && scn.world.include_directives() > 0 && split.import_log.first().is_some_and(|r| r.ok) {
        // base imported but no include attempted although directives exist: only legal if unreachable text
        stats.inc("note:no_include_attempted");
    }
    let oks: Vec<bool> = if is_lsp {
        // the real LSP reader keeps no log: an include succeeds iff the document exists (cycles are
        // answered with the same id and refused by the parser, which `walk` models)
        lsp_model_oks(&scn.world)
    } else {
        split.import_log.iter().skip(1).map(|r| r.ok).collect()
    };
    let (dirs, pasted) = walk(&scn.world, &oks);
    // sanity of the model: the k-th directive met is the k-th import requested
    for (d, rec) in dirs.iter().zip(split.import_log.iter().skip(1)).filter(|_| !is_lsp) {
        if d.requested != rec.requested {
            stats.inc("harness:walk_mismatch");
            if std::env::var("VERIF_DEBUG").is_ok() {
                eprintln!("WALK MISMATCH {} vs {}: {}", d.requested, rec.requested, serde_json::to_string(&scn.world).unwrap_or_default());
            }
            return out;
        }
    }
    if dirs.len() != oks.len() {
        stats.inc("harness:walk_count_mismatch");
        if std::env::var("VERIF_DEBUG").is_ok() {
            eprintln!("WALK COUNT MISMATCH {} vs {}: {} faults {:?}", dirs.len(), oks.len(), serde_json::to_string(&scn.world).unwrap_or_default(), scn.reader_faults);
        }
        return out;
    }
    let failed: Vec<&Directive> = dirs.iter().filter(|d| !d.ok).collect();
    if !failed.is_empty() {
        stats.inc("probe:failed_include");
    }
    if dirs.iter().any(|d| d.ok) {
        stats.inc("probe:successful_include");
    }
    if dirs.len() >= 2 {
        stats.inc("probe:several_includes");
    }

    // reference: the pasted single file, same analyzer
    let ptext = world::pasted_text(&pasted);
    let pworld = World::single(&ptext);
    let reference = lint::run(&LintSpec::new(&pworld, scn.entropy.get(1).copied().unwrap_or(e0), Api::Coded));
    stats.inc("t1_incarnations");
    if reference.panic.is_some() {
        stats.inc("skipped_reference_crash(C06's subject)");
        return out;
    }
    // map the reference back
    let starts = line_starts(&pasted);
    let mut want: Vec<Key> = Vec::new();
    for d in &reference.diags {
        let mut k = key(d);
        if d.file == "<nil>" {
            k.0 = "<nil>".into();
        } else if let Some((f, l)) = map_back(&pasted, &starts, d.line, d.raw) {
            k.0 = f;
            k.1 = l;
        }
        want.push(k);
    }
    // split side: take out exactly one error item per failed include, located on its directive
    let mut got: Vec<Key> = split.diags.iter().map(key).collect();
    let mut titles_at: Vec<(String, usize, &str)> = Vec::new();
    let mut sites_with_error: Vec<(String, usize)> = Vec::new();
    // every failed directive occurrence with the outcome of *its own* import (the k-th directive met
    // is the k-th include import; a directive met twice can fail differently each time)
    let failed_with_rec: Vec<(&Directive, String)> = dirs
        .iter()
        .enumerate()
        .filter(|(_, d)| !d.ok)
        .map(|(k, d)| (d, split.import_log.get(k + 1).map(|r| r.error.clone()).unwrap_or_default()))
        .collect();
    for (d, rec) in &failed_with_rec {
        let rec = rec.clone();
        let missing = resolve(dir_of(&d.file), &d.requested).is_none_or(|t| !scn.world.files.contains_key(&t));
        let title = if is_lsp && missing {
            "Unexpected error" // InternalFileNotFound
        } else if rec.is_empty() {
            "Cyclic dependency"
        } else {
            include_error_title(&rec)
        };
        let pos = got.iter().position(|k| k.0 == d.file && k.1 == d.line && k.4 == "Error" && k.5.starts_with(title));
        match pos {
            Some(p) => {
                got.remove(p);
                stats.inc("include_errors_located");
                sites_with_error.push((d.file.clone(), d.line));
            }
            // a directive met again (its file is included twice) repeats the same item, which is
            // reported once
            None if sites_with_error.contains(&(d.file.clone(), d.line)) => {}
            None => {
                out.push(viol(
                    "failed-include-reported-on-directive",
                    format!("no-error-on-directive:{}", title.to_lowercase().replace(' ', "-")),
                    format!("include of `{}` at {}:{} failed ({rec}) but no `{title}` error is located on that line; items there: {:?}", d.requested, d.file, d.line + 1, split.diags.iter().filter(|x| x.file == d.file && x.line == d.line).map(NDiag::short).collect::<Vec<_>>()),
                    &feats,
                ));
                return out;
            }
        }
        titles_at.push((d.file.clone(), d.line, title));
    }
    // ... and not more than one per time the directive was met (a file included twice meets its own
    // directives twice)
    for (f, l, title) in &titles_at {
        if got.iter().any(|k| k.0 == *f && k.1 == *l && k.4 == "Error" && k.5.starts_with(title)) {
            out.push(viol("failed-include-reported-on-directive", "two-errors-on-directive".into(), format!("include at {f}:{} reported more often than it was met", l + 1), &feats));
            return out;
        }
    }
    if !failed.is_empty() && scn.world.files.values().any(|t| crate::world::statement_continues(&split_lines(t)).iter().any(|c| *c)) {
        // The model writes an empty line for a directive whose include fails. The analyzer still
        // has a statement there (it carries the error), and a statement ends a data list that was
        // going on over it: what the continuation lines below then are is not decided by the
        // property. Every other clause has been checked; equality is not demanded for this world.
        stats.inc("excluded:failed-include-among-multi-line-statements(equality only)");
        return out;
    }
    if got.iter().chain(want.iter()).any(|k| is_unterminated_tail(&scn.world, k)) {
        // the statement on such a tail is reported at the end of the file in the split program and
        // on the newline that follows the pasted text in the single file: the position is line
        // accounting (C07/C09; the newline that ends the statement is the one after the directive, in the
        // including file), but the items themselves must be the same on both sides
        stats.inc("probe:unterminated_tail");
        let split_tail = |v: &mut Vec<Key>| -> Vec<String> {
            let mut t: Vec<String> = v.iter().filter(|k| is_unterminated_tail(&scn.world, k)).map(|k| k.5.clone()).collect();
            v.retain(|k| !is_unterminated_tail(&scn.world, k));
            t.sort();
            // a file pasted twice reports the same item once (see included_more_than_once)
            t.dedup();
            t
        };
        let (gt, wt) = (split_tail(&mut got), split_tail(&mut want));
        if gt != wt {
            out.push(viol(
                "split-equals-pasted",
                "lib:differs-from-pasted:statement-cut-off-by-end-of-file".into(),
                format!("a file ends, without a newline, in the middle of a statement: the split program reports {gt:?} for it, the pasted file {wt:?}"),
                &feats,
            ));
            return out;
        }
    }
    got.sort();
    want.sort();
    if included_more_than_once(&dirs, &scn.world) {
        stats.inc("probe:file_included_twice");
        got.dedup();
        want.dedup();
    }
    if got != want {
        // schedule-stability of the pasted side (DESIGN.md §5.6): re-run it under more seeds
        let mut stable = true;
        for s in 0..4u64 {
            let r2 = lint::run(&LintSpec::new(&pworld, crate::rng::mix(&[e0, s, 77]) >> 11, Api::Coded));
            stats.inc("t1_incarnations");
            let mut a: Vec<Key> = r2.diags.iter().map(key).collect();
            let mut b: Vec<Key> = reference.diags.iter().map(key).collect();
            a.sort();
            b.sort();
            if a != b {
                stable = false;
                break;
            }
        }
        if !stable {
            stats.inc("schedule_unstable_worlds(left to C10)");
            return out;
        }
        let only_got: Vec<&Key> = got.iter().filter(|k| !want.contains(k)).collect();
        let only_want: Vec<&Key> = want.iter().filter(|k| !got.contains(k)).collect();
        let first_line = only_got.iter().chain(only_want.iter()).all(|k| first_line_involved(k, &pasted));
        // same items modulo columns?
        let strip = |v: &[&Key]| {
            let mut x: Vec<(String, usize, String, String)> = v.iter().map(|k| (k.0.clone(), k.1, k.4.clone(), k.5.clone())).collect();
            x.sort();
            x
        };
        let kind = if strip(&only_got) == strip(&only_want) {
            "columns"
        } else if only_got.len() != only_want.len() {
            "count"
        } else {
            "items"
        };
        let mut f = feats.clone();
        f.insert("only_first_lines_involved".into(), first_line.to_string());
        let kinds: Vec<String> = {
            let mut v: Vec<String> = only_got.iter().chain(only_want.iter()).map(|k| super::kind_of_title(&k.5)).collect();
            v.sort();
            v.dedup();
            v
        };
        out.push(viol(
            "same-diagnostics-as-pasted",
            format!("differs-from-pasted:{kind}{}", if failed.is_empty() { "" } else { ":after-failed-include" }),
            format!("kinds involved: {}; split has {:?} which the pasted file lacks; pasted has {:?} which the split lacks", kinds.join("+"), only_got.iter().take(3).collect::<Vec<_>>(), only_want.iter().take(3).collect::<Vec<_>>()),
            &f,
        ));
        return out;
    }
    // every item's raw offset lies on its line of its own file
    for d in &split.diags {
        let Some(t) = scn.world.files.get(&d.file) else { continue };
        let chars: Vec<char> = t.chars().collect();
        let mut starts = vec![0usize];
        for (i, c) in chars.iter().enumerate() {
            if *c == '\n' {
                starts.push(i + 1);
            }
        }
        let Some(&ls) = starts.get(d.line) else {
            out.push(viol("file-relative-position", "line-beyond-file".into(), format!("{} reports line {} but {} has {} lines", d.short(), d.line + 1, d.file, starts.len()), &feats));
            return out;
        };
        let le = starts.get(d.line + 1).copied().unwrap_or(chars.len() + 1);
        if !(ls <= d.raw && d.raw <= le) && !(d.line > 0 && d.raw + 1 == ls) {
            out.push(viol("file-relative-position", "raw-offset-not-on-line".into(), format!("{}: raw offset {} is not within line {} of {} ({}..{})", d.short(), d.raw, d.line + 1, d.file, ls, le), &feats));
            return out;
        }
    }
    if !split.diags.is_empty() && !dirs.is_empty() {
        stats.nontrivial_worlds.insert(wh);
    }
    if stats.samples.len() < 3 {
        stats.samples.push(serde_json::json!({
            "variant": "t1", "files": scn.world.files.keys().collect::<Vec<_>>(), "personality": format!("{:?}", scn.personality),
            "faults": scn.reader_faults, "directives": dirs.iter().map(|d| format!("{}:{} -> {} ({})", d.file, d.line + 1, d.requested, if d.ok { "ok" } else { "failed" })).collect::<Vec<_>>(),
            "reader_history": split.reader_history.iter().take(8).collect::<Vec<_>>(),
            "diagnostics": split.diags.iter().map(NDiag::short).take(6).collect::<Vec<_>>(),
        }));
    }
    let _: Option<&LintObs> = None;
    out
}

// -------------------------------------------------------------------------------------------------
// T2: the CLI's file-system reader

fn json_items(out: &str) -> Option<Vec<Key>> {
    let v: serde_json::Value = serde_json::from_str(out).ok()?;
    let arr = v.get("diagnostics")?.as_array()?;
    let mut items = Vec::new();
    for it in arr {
        let file = it.get("file").and_then(|f| f.as_str()).unwrap_or("<null>").strip_prefix("<ROOT>/").map_or_else(|| it.get("file").and_then(|f| f.as_str()).unwrap_or("<null>").to_string(), str::to_string);
        let g = |a: &str, b: &str| it.get("range").and_then(|r| r.get(a)).and_then(|p| p.get(b)).and_then(serde_json::Value::as_u64).unwrap_or(0) as usize;
        items.push((
            file,
            g("start", "line"),
            g("start", "column"),
            g("end", "column"),
            it.get("level").and_then(|x| x.as_str()).unwrap_or("").to_string(),
            it.get("title").and_then(|x| x.as_str()).unwrap_or("").to_string(),
            it.get("description").and_then(|x| x.as_str()).unwrap_or("").to_string(),
        ));
    }
    Some(items)
}

fn check_t2(scn: &Scenario, stats: &mut Stats) -> Vec<Violation> {
    let mut out = Vec::new();
    let Some(spec) = &scn.t2 else { return out };
    let wh = scn.world.content_hash();
    stats.worlds.insert(wh);
    let Some(&e0) = scn.entropy.first() else { return out };
    let mut feats = BTreeMap::new();
    feats.insert("reader".into(), "IOFileReader".into());
    feats.insert("plan".into(), spec.plan.join(";"));
    let Ok(sb) = t2::Sandbox::new(&scn.world) else {
        stats.inc("harness:sandbox_failed");
        return out;
    };
    if scn.world.special.keys().any(|k| k.starts_with("lnk")) {
        stats.inc("probe:include_through_directory_symlink");
    }
    let run = |flags: &[&str], plan: &[String], sbx: &t2::Sandbox, base: &str, e: u64| {
        let f: Vec<String> = flags.iter().map(|s| (*s).to_string()).collect();
        t2::run_rva(&t2::RvaCall { sandbox: sbx, base, flags: &f, entropy: e, plan, profile: &spec.profile, force_color: false, cpu_seconds: 10, raw_base: None, stdout_fault: None, fifos: vec![], arg_style: 0 })
    };
    let Ok(sj) = run(&["--json", "--all-files"], &spec.plan, &sb, &scn.world.base, e0) else {
        stats.inc("harness:spawn_failed");
        return out;
    };
    stats.inc("t2_runs");
    for l in sj.log.lines() {
        if l.contains("FAULT errno") {
            stats.inc("fault:fs:open-errno");
        } else if l.contains("FAULT short") {
            stats.inc("fault:fs:short-read");
        } else if l.contains("FAULT eintr") {
            stats.inc("fault:fs:eintr");
        }
    }
    if let Some(why) = sj.abnormal() {
        out.push(viol("terminates", format!("cli:{}", why.split(' ').take(3).collect::<Vec<_>>().join("-")), format!("rva lint --json on the split world: {why}; stderr: {}", sj.stderr.chars().take(300).collect::<String>()), &feats));
        return out;
    }
    let Some(split_items) = json_items(&sj.stdout) else {
        stats.inc("note:json_unparseable(C18's subject)");
        return out;
    };
    // which includes must fail: an independent model of the CLI's reader. Opens are counted the way
    // the interposition library counts them (the base file is open 1; a refused cycle opens nothing).
    let mut oks: Vec<bool> = Vec::new();
    {
        let fail_open: Vec<u64> = spec.plan.iter().filter_map(|p| p.strip_prefix("open:").and_then(|r| r.split(':').next()).and_then(|n| n.parse().ok())).collect();
        fn go(world: &World, path: &str, ancestors: &mut Vec<String>, opens: &mut u64, fail_open: &[u64], oks: &mut Vec<bool>) {
            let Some(text) = world.files.get(path) else { return };
            ancestors.push(path.to_string());
            for l in split_lines(text) {
                if let Some(rel) = parse_include(l) {
                    let target = world.resolve_in(dir_of(path), rel);
                    let cyclic = target.as_ref().is_some_and(|t| ancestors.contains(t));
                    let mut ok = false;
                    if !cyclic {
                        *opens += 1;
                        let planned = fail_open.contains(opens);
                        let exists = target.as_ref().is_some_and(|t| world.files.contains_key(t) && !world.special.contains_key(t) && !world.binary.contains_key(t));
                        ok = !planned && exists;
                    }
                    oks.push(ok);
                    if ok && ancestors.len() < 64 {
                        if let Some(t) = target {
                            go(world, &t, ancestors, opens, fail_open, oks);
                        }
                    }
                }
            }
            ancestors.pop();
        }
        let mut opens = 1u64;
        go(&scn.world, &scn.world.base, &mut Vec::new(), &mut opens, &fail_open, &mut oks);
    }
    let (dirs, pasted) = walk(&scn.world, &oks);
    let failed: Vec<&Directive> = dirs.iter().filter(|d| !d.ok).collect();
    if !failed.is_empty() {
        stats.inc("probe:failed_include");
    }
    if dirs.iter().any(|d| d.ok) {
        stats.inc("probe:successful_include");
    }
    // reference: pasted file through the same CLI, fault-free
    let pworld = World::single(&world::pasted_text(&pasted));
    let Ok(psb) = t2::Sandbox::new(&pworld) else { return out };
    let Ok(pj) = run(&["--json", "--all-files"], &[], &psb, "base.s", scn.entropy.get(1).copied().unwrap_or(e0)) else { return out };
    stats.inc("t2_runs");
    if pj.abnormal().is_some() {
        stats.inc("skipped_reference_crash(C06's subject)");
        return out;
    }
    let Some(ref_items) = json_items(&pj.stdout) else { return out };
    let ref_raws: Vec<usize> = serde_json::from_str::<serde_json::Value>(&pj.stdout)
        .ok()
        .and_then(|v| v.get("diagnostics").and_then(|d| d.as_array()).map(|a| a.iter().map(|it| it.get("range").and_then(|r| r.get("start")).and_then(|p| p.get("raw")).and_then(serde_json::Value::as_u64).unwrap_or(0) as usize).collect()))
        .unwrap_or_default();
    let starts = line_starts(&pasted);
    let mut want: Vec<Key> = ref_items
        .iter()
        .zip(&ref_raws)
        .map(|(k, raw)| {
            let mut k = k.clone();
            if k.0 != "<null>" && !k.0.is_empty() {
                if let Some((f, l)) = map_back(&pasted, &starts, k.1, *raw) {
                    k.0 = f;
                    k.1 = l;
                }
            }
            k
        })
        .collect();
    let mut got = split_items.clone();
    let mut sites_with_error: Vec<(String, usize)> = Vec::new();
    for d in &failed {
        let is_include_error = |t: &str| ["IO Error", "File not found", "Cyclic dependency", "Unexpected error"].iter().any(|p| t.starts_with(p));
        let pos = got.iter().position(|k| k.0 == d.file && k.1 == d.line && k.4 == "Error" && is_include_error(&k.5));
        match pos {
            Some(p) => {
                got.remove(p);
                stats.inc("include_errors_located");
                sites_with_error.push((d.file.clone(), d.line));
            }
            None if sites_with_error.contains(&(d.file.clone(), d.line)) => {}
            None => {
                out.push(viol("failed-include-reported-on-directive", "cli:no-error-on-directive".into(), format!("include of `{}` at {}:{} failed but no error is located on that line", d.requested, d.file, d.line + 1), &feats));
                return out;
            }
        }
    }
    if !failed.is_empty() && scn.world.files.values().any(|t| crate::world::statement_continues(&split_lines(t)).iter().any(|c| *c)) {
        // The model writes an empty line for a directive whose include fails. The analyzer still
        // has a statement there (it carries the error), and a statement ends a data list that was
        // going on over it: what the continuation lines below then are is not decided by the
        // property. Every other clause has been checked; equality is not demanded for this world.
        stats.inc("excluded:failed-include-among-multi-line-statements(equality only)");
        return out;
    }
    if got.iter().chain(want.iter()).any(|k| is_unterminated_tail(&scn.world, k)) {
        // the statement on such a tail is reported at the end of the file in the split program and
        // on the newline that follows the pasted text in the single file: the position is line
        // accounting (C07/C09; the newline that ends the statement is the one after the directive, in the
        // including file), but the items themselves must be the same on both sides
        stats.inc("probe:unterminated_tail");
        let split_tail = |v: &mut Vec<Key>| -> Vec<String> {
            let mut t: Vec<String> = v.iter().filter(|k| is_unterminated_tail(&scn.world, k)).map(|k| k.5.clone()).collect();
            v.retain(|k| !is_unterminated_tail(&scn.world, k));
            t.sort();
            // a file pasted twice reports the same item once (see included_more_than_once)
            t.dedup();
            t
        };
        let (gt, wt) = (split_tail(&mut got), split_tail(&mut want));
        if gt != wt {
            out.push(viol(
                "split-equals-pasted",
                "cli:differs-from-pasted:statement-cut-off-by-end-of-file".into(),
                format!("a file ends, without a newline, in the middle of a statement: the split program reports {gt:?} for it, the pasted file {wt:?}"),
                &feats,
            ));
            return out;
        }
    }
    got.sort();
    want.sort();
    if included_more_than_once(&dirs, &scn.world) {
        stats.inc("probe:file_included_twice");
        got.dedup();
        want.dedup();
    }
    if got != want {
        let only_got: Vec<&Key> = got.iter().filter(|k| !want.contains(k)).collect();
        let only_want: Vec<&Key> = want.iter().filter(|k| !got.contains(k)).collect();
        let first_line = only_got.iter().chain(only_want.iter()).all(|k| first_line_involved(k, &pasted));
        let mut f = feats.clone();
        f.insert("only_first_lines_involved".into(), first_line.to_string());
        let kinds: Vec<String> = {
            let mut v: Vec<String> = only_got.iter().chain(only_want.iter()).map(|k| super::kind_of_title(&k.5)).collect();
            v.sort();
            v.dedup();
            v
        };
        out.push(viol(
            "same-diagnostics-as-pasted",
            format!("cli:differs-from-pasted{}", if failed.is_empty() { "" } else { ":after-failed-include" }),
            format!("kinds involved: {}; split has {:?} which the pasted file lacks; pasted has {:?} which the split lacks", kinds.join("+"), only_got.iter().take(3).collect::<Vec<_>>(), only_want.iter().take(3).collect::<Vec<_>>()),
            &f,
        ));
        return out;
    }
    // default mode shows base-file items only, and counts the others; --all-files shows all
    // (an item that belongs to no file at all is shown, not counted as "in another file")
    let in_base = split_items.iter().filter(|k| k.0 == scn.world.base || k.0 == "<null>").count();
    let elsewhere = split_items.len() - in_base;
    for all in [false, true] {
        let flags: Vec<&str> = if all { vec!["--compact", "--no-color", "--all-files"] } else { vec!["--compact", "--no-color"] };
        let Ok(c) = run(&flags, &spec.plan, &sb, &scn.world.base, e0) else { return out };
        stats.inc("t2_runs");
        if c.abnormal().is_some() {
            stats.inc("skipped_crash_or_hang(C06's subject)");
            return out;
        }
        let lines: Vec<&str> = c.stdout.lines().collect();
        let trailer = lines.iter().find(|l| l.contains("found in other files")).and_then(|l| l.split(' ').next()).and_then(|n| n.parse::<usize>().ok());
        let shown = lines.iter().filter(|l| !l.contains("found in other files")).count();
        let (want_shown, want_trailer) = if all { (split_items.len(), None) } else { (in_base, if elsewhere > 0 { Some(elsewhere) } else { None }) };
        if shown != want_shown || trailer != want_trailer {
            out.push(viol(
                "all-files-selection",
                format!("cli:selection:{}", if all { "all-files" } else { "default" }),
                format!("`{}` shows {shown} item(s) and trailer {trailer:?}; --json has {in_base} in the base file and {elsewhere} elsewhere", flags.join(" ")),
                &feats,
            ));
            return out;
        }
    }
    if elsewhere > 0 {
        stats.inc("probe:items_in_other_files");
    }
    if !split_items.is_empty() && !dirs.is_empty() {
        stats.nontrivial_worlds.insert(wh);
    }
    if stats.samples.len() < 2 {
        stats.samples.push(serde_json::json!({"variant": "t2", "files": scn.world.files.keys().collect::<Vec<_>>(), "plan": spec.plan, "fs_calls": sj.log.lines().take(10).collect::<Vec<_>>(), "items": split_items.len()}));
    }
    out
}


// ---------------------------------------------------------------------------------------------
// Tail variant: further tokens behind the path on the directive's own line, and included files
// that end without a newline, so that the included text stands in the *middle* of a line of the
// including file. The line-based cutter and line map above cannot express this; the variant has
// its own reference model (character-level textual inclusion) and a coarser comparison.

/// last lines of an included file (written without newline at the end); some are faulty in a way
/// that makes the parser skip the rest of the line, some are complete statements
const TAIL_LAST: &[&str] = &[
    "    frobnicate t0, t1",
    "    .bogusdir 3",
    "    addi t0, t0, t1, 5",
    "    li t0, ,",
    "    add t1",
    "    addi t0, t0, 1",
    "    li a0, 1",
    "    mv t2, t0",
    "    lw t1, 0(",
    "tail_end:",
    "    .word 1, 2,",
    "    beq t0, zero,",
    "    li t1, 3 frob",
];
/// what follows the closing quote of the directive on the same line
const TAIL_AFTER: &[&str] = &["li t3, 9", "addi t4, t4, 1", "frob", "li a7, 10", "t5, 7", ", 5", "mv t6, t3", "", "li a0, 2 li a1, 3", "# said in passing", "after: li t3, 1", "3, 4", "main", ")"];
const TAIL_BODY: &[&str] = &["    li t0, 1", "    addi t1, t0, 2", "    mv a0, t1", "    li a1, 4", "    add a2, a0, a1", "    bogus t0", "    li t2, 7", ""];

fn generate_tail(r: &mut Rng, tier: Tier) -> Scenario {
    let depth = 1 + r.usize(3);
    let mut world = World { base: "base.s".into(), ..World::default() };
    let name = |k: usize| if k == 0 { "base.s".to_string() } else { format!("t{k}.s") };
    for k in 0..=depth {
        let mut lines: Vec<String> = Vec::new();
        if k == 0 {
            lines.push("main:".into());
        }
        for _ in 0..r.usize(4) {
            lines.push((*r.pick(TAIL_BODY)).to_string());
        }
        let mut text;
        if k < depth {
            let after = *r.pick(TAIL_AFTER);
            let indent = if r.chance(1, 2) { "    " } else { "" };
            lines.push(format!("{indent}.include \"{}\"{}{}", name(k + 1), if after.is_empty() { "" } else { " " }, after));
            if k == 0 {
                for _ in 0..r.usize(3) {
                    lines.push((*r.pick(TAIL_BODY)).to_string());
                }
                lines.push("    li a7, 10".into());
                lines.push("    ecall".into());
                text = lines.join("\n");
                text.push('\n');
            } else {
                // the directive line may itself be the unterminated last line of its file
                let more = r.chance(1, 2);
                if more {
                    for _ in 0..1 + r.usize(2) {
                        lines.push((*r.pick(TAIL_BODY)).to_string());
                    }
                }
                text = lines.join("\n");
                if r.chance(1, 3) {
                    text.push('\n');
                }
            }
        } else {
            lines.push((*r.pick(TAIL_LAST)).to_string());
            text = lines.join("\n");
            if r.chance(1, 5) {
                text.push('\n');
            }
        }
        world.files.insert(name(k), text);
    }
    let k = if tier == Tier::Quick { 2 } else { 3 };
    let entropy: Vec<u64> = (0..k).map(|_| r.next_u64() >> 11).collect();
    Scenario {
        property: "C15".into(),
        variant: "t1-tail".into(),
        world,
        personality: Personality::Strict,
        reader_faults: vec![],
        entropy,
        history: vec![],
        t2: None,
        content_faults: vec![],
        expected_levels: std::collections::BTreeMap::new(),
        note: format!("shape=tail depth={depth}"),
    }
}

/// Where an include directive stands in a line: (start of `.include`, end behind the closing quote, path).
fn find_directive(line: &str) -> Option<(usize, usize, &str)> {
    let lead = line.len() - line.trim_start().len();
    let t = &line[lead..];
    let rest = t.strip_prefix(".include")?;
    let ws = rest.len() - rest.trim_start().len();
    if ws == 0 {
        return None;
    }
    let q = &rest[ws..];
    let q = q.strip_prefix('"')?;
    let end = q.find('"')?;
    let stop = lead + ".include".len() + ws + 1 + end + 1;
    Some((lead, stop, &q[..end]))
}

/// Character-level textual inclusion: the directive (from `.include` to the closing quote) is
/// replaced by the text of the file, whatever stands behind it on the line stays where it is.
/// None if a file is missing or the nesting does not end (the variant generates neither).
fn inline_paste(world: &World, path: &str, depth: usize) -> Option<String> {
    if depth > 8 {
        return None;
    }
    let text = world.files.get(path)?;
    let mut out = String::new();
    for piece in text.split_inclusive('\n') {
        let (line, nl) = match piece.strip_suffix('\n') {
            Some(l) => (l, "\n"),
            None => (piece, ""),
        };
        match find_directive(line) {
            Some((a, b, rel)) => {
                let target = resolve(dir_of(path), rel)?;
                out.push_str(&line[..a]);
                out.push_str(&inline_paste(world, &target, depth + 1)?);
                out.push_str(&line[b..]);
            }
            None => out.push_str(line),
        }
        out.push_str(nl);
    }
    Some(out)
}

fn check_tail(scn: &Scenario, stats: &mut Stats) -> Vec<Violation> {
    let mut out = Vec::new();
    stats.worlds.insert(scn.world.content_hash());
    let Some(&e0) = scn.entropy.first() else { return out };
    let mut feats = BTreeMap::new();
    feats.insert("variant".into(), "t1-tail".to_string());
    let Some(ptext) = inline_paste(&scn.world, &scn.world.base, 0) else {
        stats.inc("tail:outside-the-model");
        return out;
    };
    // Textual inclusion is claimed between tokens, not inside one: a comment runs to the end of the
    // line *of its own file*, so an included file that stops, without a newline, behind a `#` would
    // under pasting swallow what follows the directive in the including file. The property speaks of
    // cuts at line boundaries; cuts inside a line are followed here only where the token stream is
    // the same on both sides. (Reached by the minimiser and by comment tails on a last line.)
    if scn.world.files.iter().any(|(p, t)| *p != scn.world.base && !t.ends_with('\n') && t.rsplit('\n').next().is_some_and(|l| l.contains('#') || l.contains('"') && find_directive(l).is_none_or(|(a, b, _)| l[..a].contains('"') || l[b..].contains('"')))) {
        stats.inc("tail:outside-the-model:file-ends-inside-a-comment-or-string");
        return out;
    }
    let split = lint::run(&LintSpec::new(&scn.world, e0, Api::Coded));
    stats.inc("t1_incarnations");
    stats.inc("tail:runs");
    if let Some(p) = &split.panic {
        out.push(viol("terminates", format!("panic:{}", p.location), format!("split run panicked: {} at {}", p.message, p.location), &feats));
        return out;
    }
    if split.import_log.iter().skip(1).any(|r| !r.ok) || split.imports != scn.world.files.len() {
        // a minimised world may have lost a file or a directive: no verdict
        stats.inc("tail:outside-the-model");
        return out;
    }
    let reference = lint::run(&LintSpec::new(&World::single(&ptext), scn.entropy.get(1).copied().unwrap_or(e0), Api::Coded));
    stats.inc("t1_incarnations");
    if reference.panic.is_some() {
        stats.inc("skipped_reference_crash(C06's subject)");
        return out;
    }
    stats.nontrivial_worlds.insert(scn.world.content_hash());
    if scn.world.files.iter().any(|(p, t)| *p != scn.world.base && !t.ends_with('\n')) {
        stats.inc("probe:tail:included-file-ends-inside-a-line");
    }
    if !reference.diags.is_empty() {
        stats.inc("probe:tail:reference-has-diagnostics");
    }
    // the same token stream must give the same findings: compared by severity, title and text
    // (positions on a line that is shared by several files have no line-based counterpart)
    let bag = |ds: &[NDiag]| {
        let mut v: Vec<(String, String, String)> = ds.iter().map(|d| (d.level.clone(), d.title.clone(), d.description.clone())).collect();
        v.sort();
        v
    };
    let (want, got) = (bag(&reference.diags), bag(&split.diags));
    if want != got {
        let only = |a: &[(String, String, String)], b: &[(String, String, String)]| {
            let mut b = b.to_vec();
            a.iter().filter(|x| if let Some(p) = b.iter().position(|y| y == *x) { b.remove(p); false } else { true }).map(|x| format!("{} `{}`", x.0, x.1)).collect::<Vec<_>>().join("; ")
        };
        out.push(viol(
            "tail:differs-from-pasted",
            "tail:differs-from-pasted".into(),
            format!("tokens behind a directive / included text inside a line: only in the pasted file [{}], only in the split program [{}]; pasted text: {:?}", only(&want, &got), only(&got, &want), ptext),
            &feats,
        ));
    }
    out
}
