//! Per-property scenario generators and oracles.

use crate::gen::{self, GenCfg};
use crate::rng::Rng;
use crate::scenario::{Scenario, Stats, Tier, Violation};
use crate::world::{self, CutCfg, World};

pub mod c03;
pub mod c06;
pub mod c10;
pub mod c11;
pub mod c12;
pub mod c15;
pub mod c18;

pub const CLAIMED: [&str; 7] = ["C03", "C06", "C10", "C11", "C12", "C15", "C18"];

/// Draw a program and cut it into a world. Returns (world, generator cfg, cut cfg, lines).
pub fn draw_world(r: &mut Rng, force: impl FnOnce(&mut GenCfg, &mut CutCfg)) -> (World, GenCfg, CutCfg, Vec<String>) {
    let mut g = GenCfg::swarm(r);
    let mut c = CutCfg::swarm(r);
    force(&mut g, &mut c);
    let lines = gen::generate(r, &g);
    let w = world::cut(&lines, &c, r);
    (w, g, c, lines)
}

pub fn generate(prop: &str, seed: u64, tier: Tier, run_index: u64) -> Scenario {
    let mut r = Rng::new(seed);
    match prop {
        "C06" => c06::generate(&mut r, tier, run_index),
        "C03" => c03::generate(&mut r, tier),
        "C11" => c11::generate(&mut r, tier),
        "C12" if run_index < 2 => c12::generate_scaling(&mut r, tier, run_index),
        "C12" => c12::generate(&mut r, tier),
        "C10" => c10::generate(&mut r, tier),
        "C18" => c18::generate(&mut r, tier),
        "C15" => c15::generate(&mut r, tier),
        _ => panic!("unknown property {prop}"),
    }
}

pub fn check(scn: &Scenario, stats: &mut Stats) -> Vec<Violation> {
    match scn.property.as_str() {
        "C06" => c06::check(scn, stats),
        "C03" => c03::check(scn, stats),
        "C11" => c11::check(scn, stats),
        "C12" => c12::check(scn, stats),
        "C10" => c10::check(scn, stats),
        "C18" => c18::check(scn, stats),
        "C15" => c15::check(scn, stats),
        p => panic!("unknown property {p}"),
    }
}

/// Title -> stable kind name (strip the dynamic tail of titles that embed names).
pub fn kind_of_title(title: &str) -> String {
    let t = title;
    for (prefix, kind) in [
        ("Invalid use after call", "invalid-use-after-call"),
        ("Lost register value", "lost-register-value"),
        ("First instruction is", "first-instruction-is-function"),
        ("Part of multiple functions", "node-in-many-functions"),
        ("Invalid stack position", "invalid-stack-position"),
        ("Invalid stack offset usage", "invalid-stack-offset-usage"),
        ("Labels not defined", "labels-not-defined"),
        ("Duplicate label", "duplicate-label"),
        ("Expected ", "parse-expected"),
        ("IO Error", "io-error"),
        ("File not found", "file-not-found"),
    ] {
        if t.starts_with(prefix) {
            return kind.to_string();
        }
    }
    t.to_lowercase().replace(' ', "-")
}

pub fn rule(prop: &str) -> &'static str {
    match prop {
        "C10" => "cases = worlds (generated program cut into an include tree) x entropy seeds (hash/UUID schedules); a world is non-trivial iff it produced at least one diagnostic and at least one reach probe fired on it (exit choice / functions() order / pre-sort order differed across its schedules, or it has a multi-label function, or it is multi-file); distinct = by content hash of the world",
        "C18" => "cases = worlds x the 16 combinations of --json/--compact/--no-color/--all-files under one shared entropy seed, plus the library call RVParser::run; a world is non-trivial iff it produced at least one diagnostic (so there is something to compare across channels); distinct = by content hash of the world",
        "C15" => "cases = worlds (program cut into an include tree, plus missing-file / self-include / two-cycle / included-twice shapes) x reader personality x reader fault plan (kind x import index) in process, and x file-system fault plan through the real CLI; each compared with the same analyzer on the pasted single file; a world is non-trivial iff at least one include directive was met and at least one diagnostic was produced; distinct = by content hash of the world",
        "C03" => "cases = generated programs (mostly in the class 'every path ends in ret or an exit ecall') x entropy seeds; on every schedule's finished graph: inverse relations, every edge explained, and against the harness's own reference edge model every execution-possible transfer present and no reachable line reported unreachable; a world is non-trivial iff the reference model applies and reaches more than three instructions (or, outside the model's class, the graph has more than four nodes); distinct = by content hash",
        "C11" => "cases = generated programs rich in several-labels-per-entry, interleaved bodies, shared tails, fall-through, recursion, callers in dead code, 1-3 returns x entropy seeds; F1-F4 checked on every schedule's graph with an independent traversal; non-trivial iff the graph has at least one function; distinct = by content hash",
        "C12" => "cases = generated programs x entropy seeds x generated histories (1-8 extra runs of AvailableValuePass / EcallTerminationPass / LivenessPass / run_diagnostics on the finished graph), plus a second analysis of the same parsed nodes on one thread; non-trivial iff the graph has a back edge or a function; distinct = by content hash",
        "C06" => "cases = worlds x content faults (torn/lost/replayed/interleaved writes, bit flips, byte substitutions, CRLF/CR, NUL, BOM, invalid UTF-8, size multiplier) x include-graph shapes (self-include, cycles, missing file, directory / dangling symlink / symlink loop in place of a file) x reader fault plan (kind x import index, enumerated from the run index) in process under three reader personalities, and x system-call fault plan (failing n-th open/read/realpath, short reads, EINTR, TOCTOU redirect of the printer's re-open; enumerated from the run index) x output modes x build profile through the real CLI; a world is non-trivial iff at least one fault (content, reader, file-system shape or system-call) was applied to it or fired; distinct = by content hash of the world",
        _ => "",
    }
}

pub fn real_components(prop: &str) -> Vec<&'static str> {
    let mut v = vec!["lexer", "parser + include stack", "Cfg builder", "generation passes", "available-value and liveness analyses", "all lint passes", "DiagnosticItem conversion + sort", "RVParser::run / Manager"];
    if matches!(prop, "C10" | "C18" | "C15" | "C06") {
        v.extend(["rva main.rs (clap, IOFileReader)", "PrettyPrint", "JSONPrint", "CfgWrapper/serde_yaml (yaml mode)"]);
    }
    v
}

pub fn assumptions(prop: &str) -> Vec<String> {
    let mut v = vec![
        "entropy seam self-test passed in this invocation (std RandomState keys and Uuid::new_v4 both draw from the seeded getrandom symbol)".to_string(),
        "file seam canary passed in this invocation (a planned open fault was observed by the real CLI)".to_string(),
        "riscv_analysis_lsp is not executed (wasm-only entry point); its reader's behaviour is represented by SimReader's same-id personality".to_string(),
        "sampling: a clean batch is evidence, not proof".to_string(),
    ];
    if prop == "C03" {
        v.push("clauses I3/I4 trust the harness's own reader of the generator dialect (refmodel)".into());
    }
    v
}
