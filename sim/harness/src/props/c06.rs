//! C06 — linting any input terminates without crashing (DESIGN.md §5.2).

use crate::faults;
use crate::lint::{self, Api, LintSpec};
use crate::reader::{FaultKind, Personality, ReaderFault};
use crate::rng::Rng;
use crate::scenario::{Scenario, Stats, T2Spec, Tier, Violation};
use crate::t2;
use crate::world::{dir_of, parse_include, resolve, split_lines, Special, World};
use std::collections::BTreeMap;

const MODES: [&[&str]; 9] = [&[], &["--no-color"], &["--compact"], &["--json"], &["--yaml"], &["--debug"], &["--all-files"], &["--no-output"], &["--compact", "--all-files"]];

pub fn generate(r: &mut Rng, tier: Tier, run_index_hint: u64) -> Scenario {
    let t2 = r.chance(2, 5);
    let (mut world, g, c, _) = super::draw_world(r, |g, _c| {
        g.boundary_imm = g.boundary_imm || g.body_items % 2 == 0;
    });
    let mut content: Vec<(String, String)> = Vec::new();
    let mut note = String::new();
    // include-graph shapes
    let includes: Vec<(String, usize, String)> = world
        .files
        .iter()
        .flat_map(|(p, t)| split_lines(t).iter().enumerate().filter_map(|(i, l)| parse_include(l).map(|x| (p.clone(), i, x.to_string()))).collect::<Vec<_>>())
        .collect();
    let paths: Vec<String> = world.files.keys().cloned().collect();
    let mut has_cycle = false;
    match r.below(10) {
        0 => {
            let p = r.pick(&paths).clone();
            let name = p.rsplit('/').next().unwrap_or(&p).to_string();
            if let Some(t) = world.files.get_mut(&p) {
                t.push_str(&format!("\n.include \"{name}\"\n"));
                has_cycle = true;
                note.push_str("self-include ");
            }
        }
        1 if !includes.is_empty() => {
            let (p, _, rel) = r.pick(&includes).clone();
            if let Some(child) = resolve(dir_of(&p), &rel) {
                let back = crate::world::relative(dir_of(&child), &p);
                if let Some(t) = world.files.get_mut(&child) {
                    t.push_str(&format!("\n.include \"{back}\"\n.include \"{back}\"\n"));
                    has_cycle = true;
                    note.push_str("cycle-twice ");
                }
            }
        }
        2 if !includes.is_empty() => {
            let (p, _, rel) = r.pick(&includes).clone();
            if let Some(t) = resolve(dir_of(&p), &rel) {
                world.files.remove(&t);
                note.push_str("missing-file ");
            }
        }
        _ => {}
    }
    // content faults: >= 40 % of runs are fault-free controls
    let before_faults = world.clone();
    if r.chance(3, 5) {
        let n = 1 + r.usize(2);
        for _ in 0..n {
            let paths: Vec<String> = world.files.keys().cloned().collect();
            let p = r.pick(&paths).clone();
            let kinds: Vec<&str> = faults::KINDS.iter().copied().filter(|k| *k != "size-multiplier" || (tier == Tier::Thorough && r_low(run_index_hint))).filter(|k| t2 || *k != "invalid-utf8").collect();
            let kind = *r.pick(&kinds);
            if faults::apply(&mut world, &p, kind, r, t2) {
                content.push((kind.to_string(), p));
            }
        }
    }
    // The analyzer is roughly cubic in the number of instructions it is handed, and a replayed
    // block that contains include directives multiplies whole files: keep what the parser will see
    // below ~1500 lines, where a terminating run still fits well inside the CPU limits.
    if crate::world::paste(&world, &[]).len() > 1500 || world.effective_chars(60_000) > 60_000 {
        world = before_faults;
        content.clear();
        note.push_str("faults-dropped(too-large) ");
    }
    if r.chance(1, 40) {
        // an acyclic include graph that stands for exponentially many inclusions: every file
        // includes the next one twice (n tiny files = 2^n inclusions of the last)
        let n = 6 + r.usize(21);
        let mut files = std::collections::BTreeMap::new();
        for i in 0..n {
            files.insert(format!("f{i}.s"), format!(".include \"f{}.s\"\n.include \"f{}.s\"\n", i + 1, i + 1));
        }
        files.insert(format!("f{n}.s"), if r.chance(1, 2) { "# leaf\n".to_string() } else { "    li t0, 1\n".to_string() });
        files.insert("base.s".to_string(), "main:\n.include \"f0.s\"\n    li a7, 10\n    ecall\n".to_string());
        world = World { base: "base.s".into(), files, ..World::default() };
        content.clear();
        note.push_str("diamond-includes ");
    }
    let n_imports = world.include_directives() + 1;
    let mut rfaults = Vec::new();
    let mut personality = Personality::Strict;
    let mut t2spec = None;
    if t2 {
        // fs shapes
        let mut plan = Vec::new();
        let fpaths: Vec<String> = world.files.keys().filter(|p| **p != world.base).cloned().collect();
        match r.below(12) {
            0 if !fpaths.is_empty() => {
                let p = r.pick(&fpaths).clone();
                world.special.insert(p, Special::Dir);
                note.push_str("dir-in-place ");
            }
            1 if !fpaths.is_empty() => {
                let p = r.pick(&fpaths).clone();
                world.special.insert(p, Special::Symlink("does-not-exist.s".into()));
                note.push_str("dangling-symlink ");
            }
            3 if run_index_hint % 8 == 0 => {
                // the input can be read once only: a named pipe in place of the base file
                // (no system-call faults on top: the feeder delivers once)
                world.special.insert(world.base.clone(), Special::Fifo);
                note.push_str("named-pipe ");
            }
            2 if !fpaths.is_empty() => {
                let p = r.pick(&fpaths).clone();
                let name = p.rsplit('/').next().unwrap_or("x").to_string();
                world.special.insert(p, Special::Symlink(name));
                note.push_str("symlink-loop ");
            }
            _ => {}
        }
        // system-call faults: enumerate kind x instant from the run index, plus random extras
        let opens_upper = (2 * n_imports + 2) as u64;
        match run_index_hint % 8 {
            0 => {}
            1 => plan.push(format!("open:{}:errno:{}", 1 + (run_index_hint / 8) % opens_upper, [2, 13, 5, 24, 40, 36, 21][(run_index_hint / 64 % 7) as usize])),
            2 => plan.push(format!("read:{}:errno:5", 1 + (run_index_hint / 8) % (2 * opens_upper))),
            3 => plan.push(format!("read:*:short:{}", 1 + (run_index_hint / 8) % 9)),
            4 => plan.push(format!("read:*:eintr:{}", 2 + (run_index_hint / 8) % 4)),
            5 => plan.push(format!("realpath:{}:errno:{}", 1 + (run_index_hint / 8) % 3, [2, 13][(run_index_hint / 32 % 2) as usize])),
            6 => {
                // TOCTOU: the printer's re-open of a file sees other bytes than the analysis did
                let alt = match r.below(5) {
                    0 => String::new(),
                    1 => "x\n".to_string(),
                    2 => "\u{e9}\u{e9}\u{4e16}\u{754c} \u{e9}\n".repeat(1 + r.usize(40)),
                    3 => "\t\t\t\n".repeat(1 + r.usize(40)),
                    _ => world.files.get(&world.base).map(|t| t.chars().rev().collect()).unwrap_or_default(),
                };
                world.files.insert("zz_alt.s".into(), alt);
                plan.push(format!("open:{}:redirect:@/zz_alt.s", n_imports as u64 + 1 + (run_index_hint / 8) % (n_imports as u64 + 1)));
                note.push_str("toctou ");
            }
            _ => {
                if r.chance(1, 2) {
                    plan.push(format!("read:*:short:{}", 1 + r.usize(5)));
                }
                if r.chance(1, 2) {
                    plan.push(format!("open:{}:errno:{}", 1 + r.below(opens_upper), *r.pick(&[2, 13, 5, 24, 40])));
                }
            }
        }
        // a base file whose name is not valid UTF-8 (legal on Linux), or is otherwise unusual
        let raw_base_name = if r.chance(1, 16) && !world.special.values().any(|s| matches!(s, Special::Fifo)) {
            note.push_str("odd-base-name ");
            Some(crate::t2::hex(match r.below(4) {
                0 => b"prog\xff.s".as_slice(),
                1 => b"\xc3\x28.s".as_slice(),
                2 => "caf\u{e9} \u{4e16}.s".as_bytes(),
                _ => b"a b\t'c\".s".as_slice(),
            }))
        } else {
            None
        };
        // the output side fails: full disk, or the reader of the pipe has gone away
        let stdout_fault = if r.chance(1, 12) {
            let k = *r.pick(&["full", "closed"]);
            note.push_str(&format!("stdout-{k} "));
            Some(k.to_string())
        } else {
            None
        };
        let n_modes = if tier == Tier::Quick { 3 } else { 5 };
        let mut modes: Vec<Vec<String>> = Vec::new();
        for _ in 0..n_modes {
            let m: Vec<String> = r.pick(&MODES).iter().map(|s| (*s).to_string()).collect();
            if !modes.contains(&m) {
                modes.push(m);
            }
        }
        let profile = if tier == Tier::Thorough && r.chance(1, 3) || tier == Tier::Quick && r.chance(1, 6) { "release" } else { "dev" };
        t2spec = Some(T2Spec { modes, plan, profile: profile.into(), force_color: r.chance(1, 2), raw_base_name, stdout_fault });
    } else {
        personality = if has_cycle { *r.pick(&[Personality::Strict, Personality::SameId]) } else { *r.pick(&[Personality::Strict, Personality::Fresh, Personality::SameId]) };
        // reader faults: enumerate kind x import index from the run index, plus random extras
        if run_index_hint % 3 != 0 {
            let kind = FaultKind::ALL[(run_index_hint / 3 % 5) as usize].clone();
            let import = 1 + (run_index_hint / 15) as usize % n_imports.max(1);
            rfaults.push(ReaderFault { import, kind });
            if r.chance(1, 4) {
                rfaults.push(ReaderFault { import: 1 + r.usize(n_imports.max(1)), kind: r.pick(&FaultKind::ALL).clone() });
            }
        } else if r.chance(1, 2) {
            // no reader fault planned: let the editor integration's real reader serve the run
            personality = Personality::Lsp;
        }
    }
    let entropy: Vec<u64> = (0..2).map(|_| r.next_u64() >> 11).collect();
    Scenario {
        property: "C06".into(),
        variant: if t2 { "t2".into() } else { "t1".into() },
        world,
        personality,
        reader_faults: rfaults,
        entropy,
        history: vec![],
        t2: t2spec,
        content_faults: content,
        expected_levels: std::collections::BTreeMap::new(),
        note: format!("{note}gen={g:?} cut={c:?}"),
    }
}

fn r_low(i: u64) -> bool {
    i % 16 == 5
}

fn viol(clause: &str, class: String, detail: String, feats: &BTreeMap<String, String>) -> Violation {
    Violation { property: "C06".into(), clause: clause.into(), class, detail, features: feats.clone() }
}

fn loc_class(loc: &str) -> String {
    // "/repo/riscv_analysis/src/cfg/ops.rs:78" -> "cfg/ops.rs:78"
    loc.rsplit("/src/").next().unwrap_or(loc).to_string()
}

pub fn check(scn: &Scenario, stats: &mut Stats) -> Vec<Violation> {
    let mut out = Vec::new();
    let wh = scn.world.content_hash();
    stats.worlds.insert(wh);
    for (k, _) in &scn.content_faults {
        stats.inc(&format!("fault:content:{k}"));
    }
    let mut feats = BTreeMap::new();
    feats.insert("content_faults".into(), scn.content_faults.iter().map(|(k, _)| k.as_str()).collect::<Vec<_>>().join("+"));
    let chars = scn.world.total_bytes() as u64;
    if let Some(spec) = &scn.t2 {
        feats.insert("profile".into(), spec.profile.clone());
        let Ok(sb) = t2::Sandbox::new(&scn.world) else {
            stats.inc("harness:sandbox_failed");
            return out;
        };
        let mut fired_any = false;
        let fifos: Vec<(String, String)> = scn.world.special.iter().filter(|(_, s)| matches!(s, Special::Fifo)).map(|(p, _)| (p.clone(), scn.world.files.get(p).cloned().unwrap_or_default())).collect();
        if !fifos.is_empty() {
            stats.inc("fault:fs:named-pipe-as-input");
        }
        for flags in &spec.modes {
            let force_color = spec.force_color && !flags.iter().any(|f| f == "--no-color");
            let cpu = if chars > 8_000 { 120 } else { 10 };
            let Ok(run) = t2::run_rva(&t2::RvaCall { sandbox: &sb, base: &scn.world.base, flags, entropy: scn.entropy[0], plan: &spec.plan, profile: &spec.profile, force_color, cpu_seconds: cpu, raw_base: spec.raw_base_name.as_deref().map(t2::unhex), stdout_fault: spec.stdout_fault.as_deref(), fifos: fifos.clone(), arg_style: 0 }) else {
                stats.inc("harness:spawn_failed");
                return out;
            };
            stats.inc("t2_runs");
            stats.inc(&format!("t2_profile:{}", spec.profile));
            for l in run.log.lines() {
                let k = if l.contains("FAULT errno") {
                    if l.starts_with("open") {
                        "fault:fs:open-errno"
                    } else if l.starts_with("read") {
                        "fault:fs:read-errno"
                    } else {
                        "fault:fs:realpath-errno"
                    }
                } else if l.contains("FAULT short") {
                    "fault:fs:short-read"
                } else if l.contains("FAULT eintr") {
                    "fault:fs:eintr"
                } else if l.contains("FAULT redirect") {
                    "fault:fs:toctou-redirect"
                } else {
                    continue;
                };
                stats.inc(k);
                fired_any = true;
            }
            let mode = if flags.is_empty() { "pretty".to_string() } else { flags.join(" ") };
            // with standard output failing, ending with status 1 and no panic is the graceful way out
            let out_failed = spec.stdout_fault.is_some() && run.signal.is_none() && run.status == Some(1) && !run.stderr.contains("panicked at");
            if let Some(k) = &spec.stdout_fault {
                stats.inc(&format!("fault:io:stdout-{k}:runs"));
                if out_failed {
                    stats.inc(&format!("fault:io:stdout-{k}:write-failed"));
                    fired_any = true;
                }
            }
            if let Some(why) = run.abnormal().filter(|_| !out_failed) {
                // panic location from stderr, if any
                let loc = run.stderr.lines().find(|l| l.contains("panicked at")).map(|l| l.split("panicked at ").nth(1).unwrap_or("").trim_end_matches(':').to_string()).unwrap_or_default();
                let loc = loc.rsplit_once(':').map_or(loc.clone(), |(a, _)| a.to_string());
                let kind = if run.blocked {
                    "blocked(no progress)".to_string()
                } else if why.contains("SIGKILL") || why.contains("SIGXCPU") {
                    "hang-or-blowup(cpu limit)".to_string()
                } else if run.stderr.contains("memory allocation") {
                    "memory-exhausted".to_string()
                } else if run.stderr.contains("stack overflow") || why.contains("SIGSEGV") {
                    "stack-overflow".to_string()
                } else if !loc.is_empty() {
                    format!("panic:{}", loc_class(&loc))
                } else {
                    why.clone()
                };
                let mut f = feats.clone();
                f.insert("mode".into(), mode.clone());
                f.insert("plan".into(), spec.plan.join(";"));
                out.push(viol("no-abnormal-exit", format!("cli:{kind}"), format!("rva lint {mode} ({} build): {why}; stderr: {}", spec.profile, run.stderr.chars().take(400).collect::<String>()), &f));
                return out;
            }
            if spec.stdout_fault.is_none() && flags.iter().any(|f| f == "--json") && serde_json::from_str::<serde_json::Value>(&run.stdout).is_err() {
                out.push(viol("json-parses", "cli:json-unparseable".into(), format!("rva lint {mode}: stdout is not JSON: {}", run.stdout.chars().take(200).collect::<String>()), &feats));
                return out;
            }
        }
        if fired_any || !scn.content_faults.is_empty() || !scn.world.special.is_empty() {
            stats.nontrivial_worlds.insert(wh);
        }
        if stats.samples.len() < 2 && fired_any {
            stats.samples.push(serde_json::json!({"variant": "t2", "files": scn.world.files.keys().collect::<Vec<_>>(), "special": scn.world.special, "plan": spec.plan, "modes": spec.modes, "profile": spec.profile, "content_faults": scn.content_faults}));
        }
        return out;
    }

    // T1
    feats.insert("personality".into(), format!("{:?}", scn.personality));
    for api in [Api::Coded, Api::Run] {
        let mut spec = LintSpec::of(scn, scn.entropy[0], api.clone());
        spec.want_snapshot = api == Api::Coded;
        let o = lint::run(&spec);
        stats.inc("t1_incarnations");
        stats.add("imports", o.imports as u64);
        for (_, k) in &o.fired {
            stats.inc(&format!("fault:reader:{k}"));
        }
        for (k, v) in &o.ticks {
            stats.add(&format!("ticks:{k}"), *v);
        }
        if let Some(p) = &o.panic {
            let class = match &p.budget_site {
                Some(site) => format!("hang:tick-budget:{site}"),
                None => format!("panic:{}", loc_class(&p.location)),
            };
            out.push(viol("no-panic", class, format!("{api:?}: {} at {}", p.message, p.location), &feats));
            return out;
        }
        if o.import_budget_exceeded {
            out.push(viol("bounded-progress", "hang:import-budget".into(), format!("{api:?}: {} imports for {} include directives", o.imports, scn.world.include_directives()), &feats));
            return out;
        }
        if api == Api::Coded {
            // bounded progress in logical steps
            let parse = o.ticks.get("parse").copied().unwrap_or(0);
            // characters actually handed to the parser (a file included n times counts n times)
            let chars = if o.imported_chars > 0 { o.imported_chars as u64 } else { chars * (1 + scn.world.include_occurrences() as u64) };
            let parse_bound = 2 * chars + 8 * o.imports as u64 + 64;
            if parse > parse_bound {
                out.push(viol("bounded-progress", "steps:parse".into(), format!("parse loop took {parse} steps for {chars} characters and {} imports (bound {parse_bound})", o.imports), &feats));
                return out;
            }
            if let Some(s) = &o.snapshot {
                let n = s.nodes.len() as u64;
                let bound = 4 * n + 16;
                let av = o.ticks.get("available-sweep").copied().unwrap_or(0);
                let lv = o.ticks.get("liveness-sweep").copied().unwrap_or(0);
                if av > 3 * bound {
                    out.push(viol("bounded-progress", "steps:available-sweeps".into(), format!("value analysis: {av} sweeps over 3 runs for {n} nodes (bound {})", 3 * bound), &feats));
                    return out;
                }
                if lv > bound {
                    out.push(viol("bounded-progress", "steps:liveness-sweeps".into(), format!("liveness: {lv} sweeps for {n} nodes (bound {bound})"), &feats));
                    return out;
                }
            }
        }
    }
    if !scn.content_faults.is_empty() || !scn.reader_faults.is_empty() {
        stats.nontrivial_worlds.insert(wh);
    }
    if stats.samples.len() < 2 && !scn.content_faults.is_empty() {
        stats.samples.push(serde_json::json!({"variant": "t1", "files": scn.world.files.keys().collect::<Vec<_>>(), "personality": format!("{:?}", scn.personality), "reader_faults": scn.reader_faults, "content_faults": scn.content_faults,
            "base_head": scn.world.files.get(&scn.world.base).map(|t| t.chars().take(300).collect::<String>())}));
    }
    out
}
