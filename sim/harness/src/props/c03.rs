//! C03 — the control-flow graph matches the program's real control flow (DESIGN.md §5.1).

use crate::lint::{self, Api, LintSpec};
use crate::refmodel::{self, Flow};
use crate::rng::Rng;
use crate::scenario::{Scenario, Stats, Tier, Violation};
use crate::snapshot::{Snap, NONE};
use crate::world;
use std::collections::BTreeMap;

pub fn generate(r: &mut Rng, tier: Tier) -> Scenario {
    let wellformed = r.chance(4, 5);
    let (world, g, c, _) = super::draw_world(r, |g, c| {
        if wellformed {
            *g = g.clone().wellformed();
        }
        g.undefined_label = false;
        g.duplicate_label = false;
        if c.includes > 2 {
            c.includes = 2;
        }
    });
    let k = if tier == Tier::Quick { 3 } else { 8 };
    let entropy: Vec<u64> = (0..k).map(|_| r.next_u64() >> 11).collect();
    Scenario {
        property: "C03".into(),
        variant: "t1-graph".into(),
        world,
        personality: if r.chance(1, 4) { crate::reader::Personality::Lsp } else { crate::reader::Personality::Strict },
        reader_faults: vec![],
        entropy,
        history: vec![],
        t2: None,
        content_faults: vec![],
        expected_levels: std::collections::BTreeMap::new(),
        note: format!("gen={g:?} cut={c:?}"),
    }
}

fn viol(clause: &str, class: String, detail: String) -> Violation {
    Violation { property: "C03".into(), clause: clause.into(), class, detail, features: BTreeMap::new() }
}

fn at(s: &Snap, i: usize) -> String {
    if i == NONE {
        return "<node not in graph>".into();
    }
    let n = &s.nodes[i];
    format!("node {i} `{}` ({}:{})", n.text, n.file, n.line + 1)
}

/// How many graph nodes the analyzer makes of one source instruction (`lw rd, label` is la + lw).
fn nodes_of(i: &refmodel::RefInstr) -> usize {
    let is_mem = matches!(i.mnemonic.as_str(), "lw" | "lb" | "lh" | "lbu" | "lhu" | "sw" | "sb" | "sh");
    if is_mem && i.operands.len() >= 2 {
        let o = &i.operands[1];
        let looks_label = !o.contains('(') && o.chars().next().is_some_and(|c| c.is_ascii_alphabetic() || c == '_');
        if looks_label {
            return 2;
        }
    }
    1
}

pub fn check(scn: &Scenario, stats: &mut Stats) -> Vec<Violation> {
    let mut out = Vec::new();
    let wh = scn.world.content_hash();
    stats.worlds.insert(wh);
    let pasted = world::paste(&scn.world, &[]);
    let rp = refmodel::parse(&pasted);
    for &e in &scn.entropy {
        let mut spec = LintSpec::of(scn, e, Api::Coded);
        spec.want_snapshot = true;
        let o = lint::run(&spec);
        stats.inc("t1_incarnations");
        // the schedule this incarnation actually saw (hash order of the function map, pre-sort order)
        stats.signatures.insert(crate::rng::mix(&[wh, crate::rng::hash_str(&format!("{:?}", o.sig))]));
        if o.panic.is_some() || o.import_budget_exceeded {
            stats.inc("skipped_crash_or_hang(C06's subject)");
            return out;
        }
        let Some(s) = &o.snapshot else {
            stats.inc("skipped_no_graph(cfg error; C16's subject)");
            return out;
        };
        stats.inc("graphs_checked");
        let n = s.nodes.len();
        // ---- I1: successor and predecessor relations are exact inverses, no entry twice
        for (i, nd) in s.nodes.iter().enumerate() {
            for (name, list) in [("successor", &nd.nexts), ("predecessor", &nd.prevs)] {
                if list.windows(2).any(|w| w[0] == w[1]) {
                    out.push(viol("I1:inverse", format!("I1:{name}-listed-twice"), format!("entropy {e}: {} lists a {name} twice: {list:?}", at(s, i))));
                    return out;
                }
                if list.contains(&NONE) {
                    out.push(viol("I1:inverse", format!("I1:{name}-not-in-graph"), format!("entropy {e}: {} has a {name} that is not a node of the graph", at(s, i))));
                    return out;
                }
            }
            for &b in &nd.nexts {
                if !s.nodes[b].prevs.contains(&i) {
                    out.push(viol("I1:inverse", "I1:edge-only-in-successors".into(), format!("entropy {e}: {} -> {} is in the successor relation but not in the predecessor relation", at(s, i), at(s, b))));
                    return out;
                }
            }
            for &a in &nd.prevs {
                if !s.nodes[a].nexts.contains(&i) {
                    out.push(viol("I1:inverse", "I1:edge-only-in-predecessors".into(), format!("entropy {e}: {} -> {} is in the predecessor relation but not in the successor relation", at(s, a), at(s, i))));
                    return out;
                }
            }
        }
        // ---- I2: every edge is explained
        for (a, nd) in s.nodes.iter().enumerate() {
            if nd.is_program_exit && !nd.nexts.is_empty() {
                out.push(viol("I2:edges-stop-at-exit-ecall", "I2:edge-leaves-exit-ecall".into(), format!("entropy {e}: {} is an exit ecall ({:?}) but has successors {:?}", at(s, a), nd.known_ecall, nd.nexts)));
                return out;
            }
            for &b in &nd.nexts {
                let fall = b == a + 1 && !(nd.is_return || nd.is_ureturn || nd.rewritten_return || nd.is_uncond_jump);
                let label = nd.jumps_to.as_ref().is_some_and(|l| s.nodes[b].labels.contains(l));
                let merge = nd.rewritten_return && nd.funcs.iter().any(|f| *f != NONE && s.funcs[*f].exit == b);
                if !(fall || label || merge) {
                    out.push(viol("I2:every-edge-explained", "I2:unexplained-edge".into(), format!("entropy {e}: edge {} -> {} is neither a fall-through, nor a jump to the label written in the instruction ({:?}), nor the merge of a return into its function's exit", at(s, a), at(s, b), nd.jumps_to)));
                    return out;
                }
            }
        }
        // ---- I3 / I4: against the reference edge model (programs in its class only)
        let in_class = rp.unrecognised.is_empty() && o.parse_errors == 0 && !rp.instrs.is_empty();
        let reach = if in_class { rp.reachable() } else { None };
        if let Some(reach) = reach {
            // align source instructions with graph nodes, in program order
            let mut first: Vec<usize> = Vec::with_capacity(rp.instrs.len());
            let mut last: Vec<usize> = Vec::with_capacity(rp.instrs.len());
            let mut gi = 0usize;
            let mut aligned = true;
            for ins in &rp.instrs {
                while gi < n && (s.nodes[gi].is_prog_entry || s.nodes[gi].is_func_entry) {
                    gi += 1;
                }
                let k = nodes_of(ins);
                if gi + k > n {
                    aligned = false;
                    break;
                }
                first.push(gi);
                last.push(gi + k - 1);
                let nd = &s.nodes[gi + k - 1];
                let ok = match &ins.flow {
                    Flow::Return => nd.is_return || nd.is_ureturn || nd.rewritten_return,
                    Flow::Branch { .. } => nd.kind == "Branch",
                    // by the kind of node only: whether the analyzer *treats* it as the call or jump
                    // it is, is what the clauses below are about
                    Flow::Call(_) | Flow::Jump(_) => nd.kind == "JumpLink" || nd.kind == "Branch",
                    Flow::Ecall => nd.is_ecall,
                    Flow::Plain => !(nd.is_return || nd.is_ecall || nd.kind == "Branch"),
                };
                if !ok {
                    aligned = false;
                    break;
                }
                gi += k;
            }
            while gi < n && (s.nodes[gi].is_prog_entry || s.nodes[gi].is_func_entry) {
                gi += 1;
            }
            if std::env::var_os("VERIF_DEBUG").is_some() {
                eprintln!("[c03] in_class={in_class} aligned={aligned} gi={gi} n={n} runtime={:?}", rp.instrs.iter().map(|i| i.ecall_number_is_runtime_input).collect::<Vec<_>>());
            }
            if !aligned || gi != n {
                stats.inc("harness:alignment_failed");
            } else {
                stats.inc("I3_checked_against_reference_model");
                for (i, ins) in rp.instrs.iter().enumerate() {
                    if !reach[i] {
                        continue;
                    }
                    let Some(succs) = rp.required_succs(i) else { continue };
                    // edges stop at exit ecalls (10, 93): decided from the source text, not from the
                    // analyzer's own notion of "program exit"
                    if rp.is_exit_ecall(i) && !s.nodes[last[i]].nexts.is_empty() {
                        out.push(viol(
                            "I2:edges-stop-at-exit-ecall",
                            format!("I2:edge-leaves-exit-ecall:{}", ins.ecall_number.unwrap_or(0)),
                            format!("entropy {e}: the ecall at {}:{} has a7 = {:?} set on the line before it, yet {} has successors {:?}", ins.file, ins.line + 1, ins.ecall_number, at(s, last[i]), s.nodes[last[i]].nexts),
                        ));
                        return out;
                    }
                    // within one source instruction that became two nodes
                    if last[i] != first[i] && !s.nodes[first[i]].nexts.contains(&last[i]) {
                        out.push(viol("I3:no-real-transfer-missing", "I3:missing-edge:inside-expanded-instruction".into(), format!("entropy {e}: {} -> {}", at(s, first[i]), at(s, last[i]))));
                        return out;
                    }
                    for t in succs {
                        let from = last[i];
                        let to = first[t];
                        let entry = to.checked_sub(1).filter(|p| s.nodes[*p].is_func_entry);
                        let direct = s.nodes[from].nexts.contains(&to);
                        let via_entry = entry.is_some_and(|p| s.nodes[from].nexts.contains(&p) && s.nodes[p].nexts.contains(&to));
                        if !(direct || via_entry) {
                            let kind = match &ins.flow {
                                Flow::Branch { target, .. } if rp.target(target) == Some(t) && t != i + 1 => "taken-branch",
                                Flow::Branch { .. } => "untaken-branch",
                                Flow::Jump(_) => "jump",
                                Flow::Call(_) => "return-from-call",
                                Flow::Ecall => "after-non-exit-ecall",
                                _ => "fall-through",
                            };
                            out.push(viol(
                                "I3:no-real-transfer-missing",
                                format!("I3:missing-edge:{kind}"),
                                format!("entropy {e}: an execution can go from `{} {}` ({}:{}) to `{} {}` ({}:{}) but the graph has no edge {} -> {}", ins.mnemonic, ins.operands.join(", "), ins.file, ins.line + 1, rp.instrs[t].mnemonic, rp.instrs[t].operands.join(", "), rp.instrs[t].file, rp.instrs[t].line + 1, at(s, from), at(s, to)),
                            ));
                            return out;
                        }
                    }
                }
                // I4: no reachable instruction reported as unreachable code
                for d in o.diags.iter().filter(|d| d.code.as_deref() == Some("unreachable-code")) {
                    if let Some((i, ins)) = rp.instrs.iter().enumerate().find(|(_, x)| x.file == d.file && x.line == d.line) {
                        if reach[i] {
                            out.push(viol("I4:reachable-code-not-reported-unreachable", "I4:reachable-reported-unreachable".into(), format!("entropy {e}: `{} {}` at {}:{} is reached by an execution but is reported as unreachable code", ins.mnemonic, ins.operands.join(", "), ins.file, ins.line + 1)));
                            return out;
                        }
                    }
                }
                if reach.iter().filter(|r| **r).count() > 3 {
                    stats.nontrivial_worlds.insert(wh);
                }
                if s.nodes.iter().any(|x| x.rewritten_return) {
                    stats.inc("probe:merged_returns");
                }
                if s.nodes.iter().any(|x| x.is_program_exit) {
                    stats.inc("probe:exit_ecall_cut");
                }
                if reach.iter().any(|r| !*r) {
                    stats.inc("probe:dead_code_present");
                }
            }
        } else {
            stats.inc("outside_reference_class(I1,I2 only)");
            if n > 4 {
                stats.nontrivial_worlds.insert(wh);
            }
        }
        if stats.samples.len() < 3 {
            stats.samples.push(serde_json::json!({"files": scn.world.files.keys().collect::<Vec<_>>(), "nodes": n, "edges": s.nodes.iter().map(|x| x.nexts.len()).sum::<usize>(), "source_instructions": rp.instrs.len(), "in_reference_class": in_class, "schedules": scn.entropy.len(),
                "first_edges": s.nodes.iter().enumerate().take(6).map(|(i, x)| format!("{i} `{}` -> {:?}", x.text, x.nexts)).collect::<Vec<_>>()}));
        }
    }
    out
}
