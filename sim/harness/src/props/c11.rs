//! C11 — functions are exactly the call targets and their bodies are what they reach
//! (DESIGN.md §5.4). Checked on every schedule's finished graph separately.

use crate::lint::{self, Api, LintSpec};
use crate::refmodel;
use crate::rng::Rng;
use crate::scenario::{Scenario, Stats, Tier, Violation};
use crate::snapshot::{Snap, NONE};
use crate::world;
use std::collections::{BTreeMap, BTreeSet};

pub fn generate(r: &mut Rng, tier: Tier) -> Scenario {
    let (world, g, c, _) = super::draw_world(r, |g, c| {
        g.undefined_label = false;
        g.duplicate_label = false;
        g.parse_errors = false;
        // the arrangements the property lists
        if g.n_funcs == 0 {
            g.n_funcs = 2;
        }
        g.multi_label = g.multi_label || g.n_funcs % 2 == 0;
        if c.includes > 2 {
            c.includes = 2;
        }
    });
    let k = if tier == Tier::Quick { 3 } else { 8 };
    let entropy: Vec<u64> = (0..k).map(|_| r.next_u64() >> 11).collect();
    Scenario {
        property: "C11".into(),
        variant: "t1-graph".into(),
        world,
        personality: if r.chance(1, 4) { crate::reader::Personality::Lsp } else { crate::reader::Personality::Strict },
        reader_faults: vec![],
        entropy,
        history: vec![],
        t2: None,
        content_faults: vec![],
        expected_levels: std::collections::BTreeMap::new(),
        note: format!("gen={g:?} cut={c:?}"),
    }
}

fn viol(clause: &str, class: String, detail: String) -> Violation {
    Violation { property: "C11".into(), clause: clause.into(), class, detail, features: BTreeMap::new() }
}

fn at(s: &Snap, i: usize) -> String {
    if i == NONE {
        return "<node not in graph>".into();
    }
    let n = &s.nodes[i];
    format!("node {i} `{}` ({}:{})", n.text, n.file, n.line + 1)
}

pub fn reach(s: &Snap, from: usize) -> BTreeSet<usize> {
    let mut seen = BTreeSet::new();
    let mut st = vec![from];
    while let Some(i) = st.pop() {
        if i == NONE || !seen.insert(i) {
            continue;
        }
        st.extend(s.nodes[i].nexts.iter().copied());
    }
    seen
}

pub fn check(scn: &Scenario, stats: &mut Stats) -> Vec<Violation> {
    let mut out = Vec::new();
    let wh = scn.world.content_hash();
    stats.worlds.insert(wh);
    // the call targets, read off the source text by the harness's own reader
    let pasted = world::paste(&scn.world, &[]);
    let rp = refmodel::parse(&pasted);
    let text_ok = rp.unrecognised.is_empty();
    for &e in &scn.entropy {
        let mut spec = LintSpec::of(scn, e, Api::Coded);
        spec.want_snapshot = true;
        let o = lint::run(&spec);
        stats.inc("t1_incarnations");
        // the schedule this incarnation actually saw (hash order of the function map, pre-sort order)
        stats.signatures.insert(crate::rng::mix(&[wh, crate::rng::hash_str(&format!("{:?}", o.sig))]));
        if o.panic.is_some() || o.import_budget_exceeded {
            stats.inc("skipped_crash_or_hang(C06's subject)");
            return out;
        }
        let Some(s) = &o.snapshot else {
            stats.inc("skipped_no_graph(cfg error; C16's subject)");
            return out;
        };
        stats.inc("graphs_checked");
        // ---- F1: function entries are exactly the call targets
        let mut entry_labels: BTreeSet<String> = BTreeSet::new();
        for n in s.nodes.iter().filter(|n| n.is_func_entry) {
            entry_labels.extend(n.labels.iter().cloned());
        }
        let analyzer_called: BTreeSet<String> = s.nodes.iter().filter_map(|n| n.calls_to.clone()).collect();
        if text_ok && o.parse_errors == 0 {
            let called: BTreeSet<String> = rp.called_labels().into_iter().collect();
            let maybe: BTreeSet<String> = rp.maybe_handler_labels.iter().cloned().collect();
            stats.inc("F1_checked_against_source_text");
            for l in called.iter().filter(|l| !maybe.contains(*l)) {
                let holders: Vec<usize> = s.nodes.iter().enumerate().filter(|(_, n)| n.labels.contains(l)).map(|(i, _)| i).collect();
                if holders.len() != 1 || !s.nodes[holders[0]].is_func_entry {
                    out.push(viol("F1:call-target-is-function", "F1:call-target-not-a-function".into(), format!("entropy {e}: label `{l}` is named by a call (or installed as interrupt handler) but is carried by {:?}, not by exactly one function entry", holders.iter().map(|i| at(s, *i)).collect::<Vec<_>>())));
                    return out;
                }
            }
            // a label that names a piece of data is no label of any instruction, let alone a function's
            for (i, n) in s.nodes.iter().enumerate() {
                if let Some(l) = n.labels.iter().find(|l| rp.data_labels.contains(l)) {
                    out.push(viol("F1:function-is-call-target", "F1:data-label-on-instruction".into(), format!("entropy {e}: `{l}` is written in the data segment in front of a piece of data, yet it is a label of {}{}", at(s, i), if n.is_func_entry { " (a function entry: the function is known under that name)" } else { "" })));
                    return out;
                }
            }
            for n in s.nodes.iter().filter(|n| n.is_func_entry) {
                if !n.labels.iter().any(|l| called.contains(l) || maybe.contains(l)) {
                    out.push(viol("F1:function-is-call-target", "F1:function-without-call".into(), format!("entropy {e}: function entry with labels {:?} but no call names any of them (called: {called:?})", n.labels)));
                    return out;
                }
            }
        } else {
            // weaker form: consistent with the analyzer's own decoding of calls
            for l in &analyzer_called {
                if !entry_labels.contains(l) && !s.nodes.iter().any(|n| n.labels.contains(l)) {
                    continue;
                }
                if !entry_labels.contains(l) {
                    out.push(viol("F1:call-target-is-function", "F1:call-target-not-a-function".into(), format!("entropy {e}: label `{l}` is called but no function entry carries it")));
                    return out;
                }
            }
        }
        // label -> function map: exactly the labels of entry nodes, all labels of a node to one function
        let map_labels: BTreeSet<String> = s.fn_by_label.iter().map(|(l, _)| l.clone()).collect();
        if map_labels != entry_labels {
            out.push(viol("F1:functions-map", "F1:functions-map-labels".into(), format!("entropy {e}: cfg.functions() has labels {map_labels:?}, function entries carry {entry_labels:?}")));
            return out;
        }
        for (i, n) in s.nodes.iter().enumerate().filter(|(_, n)| n.is_func_entry) {
            let fs: BTreeSet<usize> = n.labels.iter().filter_map(|l| s.fn_by_label.iter().find(|(x, _)| x == l).map(|(_, f)| *f)).collect();
            if fs.len() != 1 {
                out.push(viol("F1:functions-map", "F1:labels-of-one-entry-map-to-several-functions".into(), format!("entropy {e}: {} labels {:?} map to functions {fs:?}", at(s, i), n.labels)));
                return out;
            }
            let f = *fs.iter().next().unwrap_or(&NONE);
            if f == NONE || s.funcs[f].entry != i {
                out.push(viol("F1:functions-map", "F1:function-entry-mismatch".into(), format!("entropy {e}: {} is mapped to a function whose entry is {}", at(s, i), if f == NONE { "<unknown>".into() } else { at(s, s.funcs[f].entry) })));
                return out;
            }
        }
        // ---- F2: members = reachable from the entry; per-node owner lists consistent
        let mut shared: BTreeSet<usize> = BTreeSet::new();
        let mut member_count: BTreeMap<usize, usize> = BTreeMap::new();
        for (fi, f) in s.funcs.iter().enumerate() {
            if f.entry == NONE {
                out.push(viol("F2:members", "F2:entry-not-in-graph".into(), format!("entropy {e}: function {:?} has an entry that is not a node of the graph", f.labels)));
                return out;
            }
            let listed: BTreeSet<usize> = f.nodes.iter().copied().collect();
            let reached = reach(s, f.entry);
            if listed != reached {
                let missing: Vec<String> = reached.difference(&listed).take(3).map(|i| at(s, *i)).collect();
                let extra: Vec<String> = listed.difference(&reached).take(3).map(|i| at(s, *i)).collect();
                out.push(viol(
                    "F2:members",
                    format!("F2:members-vs-reachable:{}", if missing.is_empty() { "extra" } else { "missing" }),
                    format!("entropy {e}: function {:?}: reachable from its entry but not listed: {missing:?}; listed but not reachable: {extra:?}", f.labels),
                ));
                return out;
            }
            if f.nodes.len() != listed.len() {
                stats.inc("note:function_node_list_has_repeats");
            }
            for &i in &listed {
                *member_count.entry(i).or_insert(0) += 1;
                let owners = &s.nodes[i].funcs;
                if !owners.contains(&fi) {
                    out.push(viol("F2:owner-lists", "F2:node-does-not-list-its-function".into(), format!("entropy {e}: {} is in function {:?} but does not list it (lists {owners:?})", at(s, i), f.labels)));
                    return out;
                }
            }
        }
        for (i, n) in s.nodes.iter().enumerate() {
            for &fi in &n.funcs {
                if fi == NONE || !s.funcs[fi].nodes.contains(&i) {
                    out.push(viol("F2:owner-lists", "F2:node-lists-foreign-function".into(), format!("entropy {e}: {} lists a function that does not contain it", at(s, i))));
                    return out;
                }
            }
            if member_count.get(&i).copied().unwrap_or(0) > 1 {
                shared.insert(i);
            }
        }
        // ---- F3: one exit, a return the function reaches; every other return leads to it
        for f in &s.funcs {
            let members: BTreeSet<usize> = f.nodes.iter().copied().collect();
            if f.exit == NONE || !members.contains(&f.exit) {
                out.push(viol("F3:exit", "F3:exit-not-in-function".into(), format!("entropy {e}: function {:?}: exit {} is not among its nodes", f.labels, at(s, f.exit))));
                return out;
            }
            let x = &s.nodes[f.exit];
            if !(x.is_return || x.is_ureturn) {
                let overlapping = members.iter().any(|i| shared.contains(i));
                out.push(viol("F3:exit", format!("F3:exit-is-not-a-return{}", if overlapping { ":overlapping-functions" } else { "" }), format!("entropy {e}: function {:?}: exit {} is not a return instruction", f.labels, at(s, f.exit))));
                return out;
            }
            for &i in &members {
                if i == f.exit {
                    continue;
                }
                let n = &s.nodes[i];
                if n.is_return || n.is_ureturn {
                    let overlapping = shared.contains(&i);
                    // is the return that was left the exit of another function, and is this
                    // function's own exit shared with another function as well?
                    let other_exit = s.funcs.iter().any(|g| !std::ptr::eq(g, f) && g.exit == i);
                    let own_exit_shared = s.funcs.iter().any(|g| !std::ptr::eq(g, f) && g.exit == f.exit);
                    let mut v = viol("F3:other-returns-lead-to-exit", format!("F3:second-return-left{}", if overlapping { ":overlapping-functions" } else { "" }), format!("entropy {e}: function {:?} has exit {} but {} is still a return", f.labels, at(s, f.exit), at(s, i)));
                    v.features.insert("left_return_is_exit_of_another_function".into(), other_exit.to_string());
                    v.features.insert("own_exit_is_exit_of_another_function".into(), own_exit_shared.to_string());
                    out.push(v);
                    return out;
                }
                if n.rewritten_return {
                    // it must lead to the exit of (one of) its function(s)
                    let exits: BTreeSet<usize> = n.funcs.iter().filter(|fi| **fi != NONE).map(|fi| s.funcs[*fi].exit).collect();
                    let ok = n.nexts.len() == 1 && exits.contains(&n.nexts[0]);
                    if !ok {
                        out.push(viol("F3:other-returns-lead-to-exit", "F3:merged-return-does-not-lead-to-exit".into(), format!("entropy {e}: {} was a return of function {:?}; its successors are {:?}, the exit is {}", at(s, i), f.labels, n.nexts, at(s, f.exit))));
                        return out;
                    }
                }
            }
        }
        // ---- F4: sharing is reported exactly when it exists
        let reported = o.diags.iter().any(|d| d.code.as_deref() == Some("node-in-many-functions"));
        if !shared.is_empty() {
            stats.inc("probe:shared_nodes");
        }
        if reported != !shared.is_empty() {
            let entry_shared = shared.iter().any(|i| s.nodes[*i].is_func_entry);
            out.push(viol(
                "F4:sharing-reported-iff-exists",
                if reported { "F4:reported-without-sharing".into() } else { format!("F4:sharing-not-reported:{}", if entry_shared { "entry-shared" } else { "only-non-entry-nodes-shared" }) },
                format!("entropy {e}: {} node(s) belong to several functions (e.g. {}), node-in-many-functions reported: {reported}", shared.len(), shared.iter().next().map_or(String::new(), |i| at(s, *i))),
            ));
            return out;
        }
        // F4 per pair: every two functions that share instructions have a node-in-many-functions
        // diagnostic located on an instruction (or its label) that both of them own
        if !shared.is_empty() {
            let located: Vec<usize> = o
                .diags
                .iter()
                .filter(|d| d.code.as_deref() == Some("node-in-many-functions"))
                .filter_map(|d| {
                    // the diagnostic sits on a label (possibly written in another file than the
                    // instruction it names) or on the instruction itself
                    let by_label = rp
                        .label_sites
                        .iter()
                        .filter(|(_, f, l)| *f == d.file && *l == d.line)
                        .find_map(|(name, _, _)| s.nodes.iter().position(|n| n.labels.contains(name)));
                    // (a rewritten return carries the location of its function's exit, so several
                    // nodes can claim one line: all of them are candidates)
                    Some(match by_label {
                        Some(i) => vec![i],
                        None => s.nodes.iter().enumerate().filter(|(_, n)| n.file == d.file && n.line == d.line && !n.funcs.is_empty()).map(|(i, _)| i).collect::<Vec<usize>>(),
                    })
                })
                .flatten()
                .collect();
            for a in 0..s.funcs.len() {
                for b in a + 1..s.funcs.len() {
                    let share = s.funcs[a].nodes.iter().any(|i| s.funcs[b].nodes.contains(i));
                    if !share {
                        continue;
                    }
                    stats.inc("function_pairs_sharing_code");
                    let covered = located.iter().any(|i| s.nodes[*i].funcs.contains(&a) && s.nodes[*i].funcs.contains(&b));
                    if !covered {
                        out.push(viol(
                            "F4:sharing-reported-iff-exists",
                            "F4:pair-sharing-not-reported".into(),
                            format!("entropy {e}: functions {:?} and {:?} share instructions but no node-in-many-functions diagnostic is located on an instruction both own (diagnostics at {:?}; shared: {:?})", s.funcs[a].labels, s.funcs[b].labels, located.iter().map(|i| format!("{} owners {:?}", at(s, *i), s.nodes[*i].funcs)).collect::<Vec<_>>(), s.funcs[a].nodes.iter().filter(|i| s.funcs[b].nodes.contains(i)).map(|i| format!("{} owners {:?}", at(s, *i), s.nodes[*i].funcs)).collect::<Vec<_>>()),
                        ));
                        return out;
                    }
                }
            }
        }
        if s.funcs.iter().any(|f| f.labels.len() > 1) {
            stats.inc("probe:multi_label_entry");
        }
        if o.sig.exits.iter().any(|(_, _)| true) && s.nodes.iter().any(|n| n.rewritten_return) {
            stats.inc("probe:several_returns");
        }
        if !s.funcs.is_empty() {
            stats.nontrivial_worlds.insert(wh);
        }
        if stats.samples.len() < 3 {
            stats.samples.push(serde_json::json!({"files": scn.world.files.keys().collect::<Vec<_>>(), "functions": s.funcs.iter().map(|f| serde_json::json!({"labels": f.labels, "entry": f.entry, "exit": f.exit, "members": f.nodes.len()})).collect::<Vec<_>>(), "shared_nodes": shared.len(), "schedules": scn.entropy.len()}));
        }
    }
    out
}
