//! C12 — analysis results are a stable fixed point of the pass pipeline (DESIGN.md §5.5).

use crate::lint::{self, Api, LintSpec, NDiag, PassOp};
use crate::rng::Rng;
use crate::scenario::{Scenario, Stats, Tier, Violation};
use crate::snapshot::Snap;
use std::collections::BTreeMap;

pub fn generate(r: &mut Rng, tier: Tier) -> Scenario {
    let (world, g, c, _) = super::draw_world(r, |g, c| {
        // programs the pipeline accepts: the property is about the finished graph
        g.undefined_label = false;
        g.duplicate_label = false;
        g.noreturn_fn = false;
        g.recursion = g.recursion || g.n_funcs > 2;
        // loops in code that nothing leads into are where a sweep loop oscillates first
        g.code_after_exit = g.code_after_exit || g.body_items % 2 == 0;
        if c.includes > 2 {
            c.includes = 2;
        }
    });
    let n_ops = 1 + r.usize(if tier == Tier::Quick { 5 } else { 8 });
    let history: Vec<PassOp> = (0..n_ops).map(|_| *r.pick(&PassOp::ALL)).collect();
    let k = if tier == Tier::Quick { 2 } else { 4 };
    let entropy: Vec<u64> = (0..k).map(|_| r.next_u64() >> 11).collect();
    Scenario {
        property: "C12".into(),
        variant: "t1-histories".into(),
        world,
        personality: if r.chance(1, 4) { crate::reader::Personality::Lsp } else { crate::reader::Personality::Strict },
        reader_faults: vec![],
        entropy,
        history,
        t2: None,
        content_faults: vec![],
        expected_levels: std::collections::BTreeMap::new(),
        note: format!("gen={g:?} cut={c:?}"),
    }
}

fn viol(clause: &str, class: String, detail: String, feats: &BTreeMap<String, String>) -> Violation {
    Violation { property: "C12".into(), clause: clause.into(), class, detail, features: feats.clone() }
}

fn op_name(op: PassOp) -> &'static str {
    match op {
        PassOp::Available => "AvailableValuePass",
        PassOp::EcallTermination => "EcallTerminationPass",
        PassOp::Liveness => "LivenessPass",
        PassOp::Diagnostics => "run_diagnostics",
    }
}

fn lints_only(d: &[NDiag]) -> Vec<NDiag> {
    let mut v: Vec<NDiag> = d.iter().filter(|x| x.code.is_some()).cloned().collect();
    v.sort();
    v
}

pub fn check(scn: &Scenario, stats: &mut Stats) -> Vec<Violation> {
    let mut out = Vec::new();
    let wh = scn.world.content_hash();
    stats.worlds.insert(wh);
    let feats = BTreeMap::new();
    let mut snaps: Vec<(u64, Snap)> = Vec::new();
    for (n, &e) in scn.entropy.iter().enumerate() {
        let mut spec = LintSpec::of(scn, e, Api::Coded);
        spec.want_snapshot = true;
        if n == 0 {
            spec.history = scn.history.clone();
            spec.analyse_twice = true;
        }
        let o = lint::run(&spec);
        stats.inc("t1_incarnations");
        stats.signatures.insert(crate::rng::mix(&[wh, crate::rng::hash_str(&format!("{:?}", o.sig))]));
        if let Some(site) = o.panic.as_ref().and_then(|p| p.budget_site.clone()) {
            if site.ends_with("sweep") {
                out.push(viol("sweeps-bounded", format!("does-not-converge:{site}"), format!("entropy {e}: the {site} loop passed the hard cap of 16*nodes+128 sweeps: the analysis oscillates instead of reaching a fixed point"), &feats));
                return out;
            }
        }
        if o.panic.is_some() || o.import_budget_exceeded {
            stats.inc("skipped_crash_or_hang(C06's subject)");
            return out;
        }
        let Some(base) = o.snapshot.clone() else {
            stats.inc("skipped_no_graph(cfg error)");
            return out;
        };
        let nodes = base.nodes.len() as u64;
        if n == 0 {
            let base_lints = lints_only(&o.diags);
            // (1) every extra pass run leaves facts, edges and diagnostics unchanged
            for (step, (op, (snap, diags))) in scn.history.iter().zip(&o.after).enumerate() {
                stats.inc("operations");
                stats.inc(&format!("op:{}", op_name(*op)));
                if let Some(d) = base.diff(snap) {
                    // which pass in the history changed it: this step (steps before left it unchanged)
                    out.push(viol(
                        "extra-pass-run-changes-nothing",
                        format!("not-a-fixed-point:{}:{}", op_name(*op), Snap::diff_clause(&d)),
                        format!("history {:?}: after step {step} ({}) the graph differs from the finished one: {d}", scn.history.iter().map(|o| op_name(*o)).collect::<Vec<_>>(), op_name(*op)),
                        &feats,
                    ));
                    return out;
                }
                if *diags != base_lints {
                    let i = diags.iter().zip(&base_lints).position(|(a, b)| a != b).unwrap_or(diags.len().min(base_lints.len()));
                    out.push(viol(
                        "extra-pass-run-changes-nothing",
                        format!("diagnostics-change:{}", op_name(*op)),
                        format!("after step {step} ({}): {} vs {} lint items; first difference {:?} vs {:?}", op_name(*op), diags.len(), base_lints.len(), diags.get(i).map(NDiag::short), base_lints.get(i).map(NDiag::short)),
                        &feats,
                    ));
                    return out;
                }
            }
            // (2) sweeps per pass run bounded by a small multiple of the program size
            for (site, sweeps) in &o.sweeps {
                stats.add(&format!("ticks:{site}"), *sweeps);
                let bound = 4 * nodes + 16;
                if site.ends_with("sweep") && *sweeps > bound {
                    out.push(viol("sweeps-bounded", format!("too-many-sweeps:{site}"), format!("a re-run needed {sweeps} sweeps for {nodes} nodes (bound {bound})"), &feats));
                    return out;
                }
            }
            let pipeline_bound = 4 * nodes + 16;
            for (site, runs) in [("available-sweep", 3u64), ("liveness-sweep", 1)] {
                let t = o.ticks.get(site).copied().unwrap_or(0);
                // o.ticks also holds the second analysis (analyse_twice): twice the pipeline
                if t > 2 * runs * pipeline_bound {
                    out.push(viol("sweeps-bounded", format!("too-many-sweeps:{site}"), format!("the pipeline needed {t} {site}s (two analyses) for {nodes} nodes (bound {})", 2 * runs * pipeline_bound), &feats));
                    return out;
                }
            }
            // (3) analysing the same parsed program twice gives the same facts
            if let Some(s2) = &o.snapshot2 {
                stats.inc("analysed_twice");
                if let Some(d) = base.diff(s2) {
                    out.push(viol("same-program-twice", format!("second-analysis-differs:{}", Snap::diff_clause(&d)), format!("two analyses of the same parsed nodes on one thread: {d}"), &feats));
                    return out;
                }
                if let Some(d2) = &o.diags2 {
                    if *d2 != base_lints {
                        out.push(viol("same-program-twice", "second-analysis-differs:diagnostics".into(), "two analyses of the same parsed nodes give different lint items".into(), &feats));
                        return out;
                    }
                }
            }
            // (5) the facts satisfy the analyses' own equations on the finished graph: what a node
            // assumes on entry (a register or stack slot holding a constant or an original value)
            // holds on exit of every predecessor, and what is live after a node is what is live
            // before its successors. A sweep loop that stops early leaves facts that a further run
            // of the same loop reproduces faithfully, so (1) alone does not see it.
            for (i, nd) in base.nodes.iter().enumerate() {
                for (fin, fout, what) in [(0usize, 1usize, "reg_values"), (2, 3, "memory_values")] {
                    for item in nd.facts[fin].split(';').filter(|x| x.contains("=Constant(") || x.contains("=OriginalRegisterWithScalar(")) {
                        for &p in &nd.prevs {
                            if p == crate::snapshot::NONE || base.nodes[p].facts[fout].split(';').any(|y| y == item) {
                                continue;
                            }
                            out.push(viol(
                                "facts-satisfy-the-equations",
                                format!("equation-violated:{what}_in-not-implied-by-predecessor"),
                                format!("node {i} `{}` ({}:{}) assumes {item} on entry, but its predecessor node {p} `{}` ({}:{}) leaves {} = [{}]", nd.text, nd.file, nd.line + 1, base.nodes[p].text, base.nodes[p].file, base.nodes[p].line + 1, crate::snapshot::FACT_NAMES[fout], base.nodes[p].facts[fout]),
                                &feats,
                            ));
                            return out;
                        }
                    }
                }
                // live_out[n] = union of live_in[s] over the successors
                let set = |t: &str| -> std::collections::BTreeSet<String> { t.trim_matches(|c| c == '[' || c == ']').split(", ").filter(|x| !x.is_empty()).map(str::to_string).collect() };
                let live_out = set(&nd.facts[5]);
                let mut want = std::collections::BTreeSet::new();
                for &t in &nd.nexts {
                    if t != crate::snapshot::NONE {
                        want.extend(set(&base.nodes[t].facts[4]));
                    }
                }
                if live_out != want {
                    out.push(viol(
                        "facts-satisfy-the-equations",
                        "equation-violated:live_out-is-not-the-union-of-successors-live_in".into(),
                        format!("node {i} `{}` ({}:{}): live_out = {:?}, union of live_in over its successors {:?} = {:?}", nd.text, nd.file, nd.line + 1, live_out, nd.nexts, want),
                        &feats,
                    ));
                    return out;
                }
                stats.inc("equations_checked_nodes");
            }
            if stats.samples.len() < 3 {
                stats.samples.push(serde_json::json!({
                    "files": scn.world.files.keys().collect::<Vec<_>>(), "nodes": nodes, "history": scn.history.iter().map(|o| op_name(*o)).collect::<Vec<_>>(),
                    "sweeps_per_extra_run": o.sweeps, "pipeline_ticks": o.ticks, "lint_items": base_lints.len(),
                }));
            }
            let has_loop = base.nodes.iter().enumerate().any(|(i, nd)| nd.nexts.iter().any(|&t| t != crate::snapshot::NONE && t <= i));
            if has_loop {
                stats.inc("probe:back_edge");
            }
            if base.funcs.len() > 1 {
                stats.inc("probe:several_functions");
            }
            if has_loop || !base.funcs.is_empty() {
                stats.nontrivial_worlds.insert(wh);
            }
        }
        snaps.push((e, base));
    }
    // (4) the same facts under every schedule
    if let Some((e0, s0)) = snaps.first() {
        for (e, s) in &snaps[1..] {
            if let Some(d) = s0.diff(s) {
                out.push(viol("same-facts-under-every-schedule", format!("schedule-dependent:{}", Snap::diff_clause(&d)), format!("entropy {e0} vs {e}: {d}"), &feats));
                return out;
            }
        }
    }
    out
}
