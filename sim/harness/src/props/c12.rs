//! C12 — analysis results are a stable fixed point of the pass pipeline (DESIGN.md §5.5).

use crate::lint::{self, Api, LintSpec, NDiag, PassOp};
use crate::rng::Rng;
use crate::scenario::{Scenario, Stats, Tier, Violation};
use crate::snapshot::Snap;
use std::collections::BTreeMap;

pub fn generate(r: &mut Rng, tier: Tier) -> Scenario {
    let (world, g, c, _) = super::draw_world(r, |g, c| {
        // programs the pipeline accepts: the property is about the finished graph
        g.undefined_label = false;
        g.duplicate_label = false;
        g.noreturn_fn = false;
        g.recursion = g.recursion || g.n_funcs > 2;
        // loops in code that nothing leads into are where a sweep loop oscillates first
        g.code_after_exit = g.code_after_exit || g.body_items % 2 == 0;
        if c.includes > 2 {
            c.includes = 2;
        }
    });
    let n_ops = 1 + r.usize(if tier == Tier::Quick { 5 } else { 8 });
    let history: Vec<PassOp> = (0..n_ops).map(|_| *r.pick(&PassOp::ALL)).collect();
    let k = if tier == Tier::Quick { 2 } else { 4 };
    let entropy: Vec<u64> = (0..k).map(|_| r.next_u64() >> 11).collect();
    Scenario {
        property: "C12".into(),
        variant: "t1-histories".into(),
        world,
        personality: if r.chance(1, 4) { crate::reader::Personality::Lsp } else { crate::reader::Personality::Strict },
        reader_faults: vec![],
        entropy,
        history,
        t2: None,
        content_faults: vec![],
        expected_levels: std::collections::BTreeMap::new(),
        note: format!("gen={g:?} cut={c:?}"),
    }
}

/// The family behind the scaling clause: `n` two-instruction blocks chained against the direction
/// of their jumps (one value-analysis run needs about `n` sweeps), then `k` ecalls in a row, each
/// entered from its own feeder with a7 = 10/93 and by fall-through from the one before, so that
/// ecall i becomes a known exit only after the edge leaving ecall i-1 has been cut.
pub fn scaling_family(k: usize, n: usize) -> String {
    let mut l: Vec<String> = vec!["main:".into(), "    j c1".into()];
    for i in (1..=n).rev() {
        l.push(format!("c{i}:"));
        l.push("    addi t0, t0, 1".into());
        l.push(if i < n { format!("    j c{}", i + 1) } else { "    j disp".into() });
    }
    l.push("disp:".into());
    for i in 0..k {
        l.push(format!("    beq a0, t{}, feed{i}", i % 3 + 1));
    }
    l.push("    j fin".into());
    for i in 0..k {
        l.push(format!("feed{i}:"));
        l.push(format!("    li a7, {}", if i % 2 == 0 { 10 } else { 93 }));
        l.push(format!("    j e{i}"));
    }
    for i in 0..k {
        l.push(format!("e{i}:"));
        l.push("    ecall".into());
    }
    l.push("fin:".into());
    l.push("    li a7, 10".into());
    l.push("    ecall".into());
    l.join("\n") + "\n"
}

/// A second family: `k` stages written in reverse order of execution; the ecall of stage i+1 has
/// an unknown number until the exit ecall of stage i has been cut *and* the values have been
/// propagated through the ordinary instruction between them (`S: beq a1, zero, X / ecall / M: addi
/// / j S+1 / X: li a7, 10|93 / j M`).
pub fn scaling_family_chain(k: usize) -> String {
    let mut out: Vec<String> = vec!["main:".into(), "    li a7, 10".into(), "    j S0".into()];
    out.push(format!("S{k}:"));
    out.push("    li a7, 10".into());
    out.push("    ecall".into());
    for i in (0..k).rev() {
        out.push(format!("S{i}:"));
        out.push(format!("    beq a1, zero, X{i}"));
        out.push("    ecall".into());
        out.push(format!("M{i}:"));
        out.push("    addi t0, t0, 1".into());
        out.push(format!("    j S{}", i + 1));
        out.push(format!("X{i}:"));
        out.push(format!("    li a7, {}", if (i + 1) % 2 == 0 { 10 } else { 93 }));
        out.push(format!("    j M{i}"));
    }
    out.join("\n") + "\n"
}

/// Run index 0 of every batch: the same family at size m and 2m (in two files of one world, each
/// analysed on its own), to see how the number of sweeps grows with the program.
pub fn generate_scaling(r: &mut Rng, tier: Tier, family: u64) -> Scenario {
    let m = if tier == Tier::Quick { 16 } else { 32 };
    let mut world = if family == 0 { crate::world::World::single(&scaling_family(m, m)) } else { crate::world::World::single(&scaling_family_chain(m)) };
    world.files.insert("double.s".into(), if family == 0 { scaling_family(2 * m, 2 * m) } else { scaling_family_chain(2 * m) });
    Scenario {
        property: "C12".into(),
        variant: "t1-scaling".into(),
        world,
        personality: crate::reader::Personality::Strict,
        reader_faults: vec![],
        entropy: vec![r.next_u64() >> 11],
        history: vec![],
        t2: None,
        content_faults: vec![],
        expected_levels: std::collections::BTreeMap::new(),
        note: format!("scaling family {}, m={m} and {}", if family == 0 { "exit-cascade-behind-reversed-chain" } else { "exit-stages-with-an-instruction-between" }, 2 * m),
    }
}

fn check_scaling(scn: &Scenario, stats: &mut Stats) -> Vec<Violation> {
    let mut out = Vec::new();
    let mut feats = BTreeMap::new();
    let chain = scn.world.files.get("base.s").is_some_and(|t| t.contains("\nM0:"));
    feats.insert("family".to_string(), if chain { "exit-stages-with-an-instruction-between" } else { "exit-cascade-behind-reversed-chain" }.to_string());
    let mut rows: Vec<(u64, BTreeMap<String, u64>)> = Vec::new();
    for f in ["base.s", "double.s"] {
        let Some(text) = scn.world.files.get(f) else { return out };
        // the clause compares two members of one family: anything else (a minimiser's cut, say)
        // gets no verdict
        let k = if chain { text.lines().filter(|l| l.starts_with('X')).count() } else { text.lines().filter(|l| l.starts_with("feed")).count() };
        if k < 8 || *text != (if chain { scaling_family_chain(k) } else { scaling_family(k, k) }) {
            stats.inc("scaling:not-a-family-member(no verdict)");
            return out;
        }
        let w = crate::world::World::single(text);
        let mut spec = LintSpec::new(&w, scn.entropy[0], Api::Coded);
        spec.want_snapshot = true;
        let o = lint::run(&spec);
        stats.inc("t1_incarnations");
        stats.inc("scaling_analyses");
        if let Some(site) = o.panic.as_ref().and_then(|p| p.budget_site.clone()) {
            // In these families the analyses do end; passing the cap of 16 sweeps per node is the
            // same finding as the growth below, met at a larger size.
            out.push(viol("sweeps-bounded", format!("sweeps-grow-faster-than-the-program:{site}"), format!("scaling family, file {f}: the pipeline needs more than 16 {site}s per node (hard cap of the step hook passed)"), &feats));
            return out;
        }
        let Some(s) = o.snapshot else { return out };
        rows.push((s.nodes.len() as u64, o.ticks.clone()));
    }
    let [(n1, t1), (n2, t2)] = [rows[0].clone(), rows[1].clone()];
    for site in ["available-sweep", "liveness-sweep"] {
        let (a, b) = (t1.get(site).copied().unwrap_or(0), t2.get(site).copied().unwrap_or(0));
        stats.add(&format!("scaling:{site}:small"), a);
        stats.add(&format!("scaling:{site}:double"), b);
        // sweeps per node: constant when the sweeps are a multiple of the size; here it may grow
        // by half before the clause speaks (a quadratic count doubles it)
        let (ra, rb) = (a as f64 / n1 as f64, b as f64 / n2 as f64);
        // (only between two programs of real size, the second clearly larger)
        if n1 >= 40 && 2 * n2 >= 3 * n1 && a > 0 && rb > 1.5 * ra && b > 2 * n2 {
            out.push(viol(
                "sweeps-bounded",
                format!("sweeps-grow-faster-than-the-program:{site}"),
                format!("the pipeline needs {a} {site}s for {n1} nodes ({ra:.1} per node) but {b} for {n2} nodes ({rb:.1} per node): not a multiple of the program size"),
                &feats,
            ));
            return out;
        }
    }
    stats.nontrivial_worlds.insert(scn.world.content_hash());
    out
}

fn viol(clause: &str, class: String, detail: String, feats: &BTreeMap<String, String>) -> Violation {
    Violation { property: "C12".into(), clause: clause.into(), class, detail, features: feats.clone() }
}

fn op_name(op: PassOp) -> &'static str {
    match op {
        PassOp::Available => "AvailableValuePass",
        PassOp::EcallTermination => "EcallTerminationPass",
        PassOp::Liveness => "LivenessPass",
        PassOp::Diagnostics => "run_diagnostics",
    }
}

fn lints_only(d: &[NDiag]) -> Vec<NDiag> {
    let mut v: Vec<NDiag> = d.iter().filter(|x| x.code.is_some()).cloned().collect();
    v.sort();
    v
}

pub fn check(scn: &Scenario, stats: &mut Stats) -> Vec<Violation> {
    if scn.variant == "t1-scaling" {
        return check_scaling(scn, stats);
    }
    let mut out = Vec::new();
    let wh = scn.world.content_hash();
    stats.worlds.insert(wh);
    let feats = BTreeMap::new();
    let mut snaps: Vec<(u64, Snap)> = Vec::new();
    for (n, &e) in scn.entropy.iter().enumerate() {
        let mut spec = LintSpec::of(scn, e, Api::Coded);
        spec.want_snapshot = true;
        if n == 0 {
            spec.history = scn.history.clone();
            spec.analyse_twice = true;
        }
        let o = lint::run(&spec);
        stats.inc("t1_incarnations");
        stats.signatures.insert(crate::rng::mix(&[wh, crate::rng::hash_str(&format!("{:?}", o.sig))]));
        if let Some(site) = o.panic.as_ref().and_then(|p| p.budget_site.clone()) {
            if site.ends_with("sweep") {
                out.push(viol("sweeps-bounded", format!("does-not-converge:{site}"), format!("entropy {e}: the {site} loop passed the hard cap of 16*nodes+128 sweeps: the analysis oscillates instead of reaching a fixed point"), &feats));
                return out;
            }
        }
        if o.panic.is_some() || o.import_budget_exceeded {
            stats.inc("skipped_crash_or_hang(C06's subject)");
            return out;
        }
        let Some(base) = o.snapshot.clone() else {
            stats.inc("skipped_no_graph(cfg error)");
            return out;
        };
        let nodes = base.nodes.len() as u64;
        if n == 0 {
            let base_lints = lints_only(&o.diags);
            // (1) every extra pass run leaves facts, edges and diagnostics unchanged
            for (step, (op, (snap, diags))) in scn.history.iter().zip(&o.after).enumerate() {
                stats.inc("operations");
                stats.inc(&format!("op:{}", op_name(*op)));
                if let Some(d) = base.diff(snap) {
                    // which pass in the history changed it: this step (steps before left it unchanged)
                    out.push(viol(
                        "extra-pass-run-changes-nothing",
                        format!("not-a-fixed-point:{}:{}", op_name(*op), Snap::diff_clause(&d)),
                        format!("history {:?}: after step {step} ({}) the graph differs from the finished one: {d}", scn.history.iter().map(|o| op_name(*o)).collect::<Vec<_>>(), op_name(*op)),
                        &feats,
                    ));
                    return out;
                }
                if *diags != base_lints {
                    let i = diags.iter().zip(&base_lints).position(|(a, b)| a != b).unwrap_or(diags.len().min(base_lints.len()));
                    out.push(viol(
                        "extra-pass-run-changes-nothing",
                        format!("diagnostics-change:{}", op_name(*op)),
                        format!("after step {step} ({}): {} vs {} lint items; first difference {:?} vs {:?}", op_name(*op), diags.len(), base_lints.len(), diags.get(i).map(NDiag::short), base_lints.get(i).map(NDiag::short)),
                        &feats,
                    ));
                    return out;
                }
            }
            // (2) sweeps per pass run bounded by a small multiple of the program size
            for (site, sweeps) in &o.sweeps {
                stats.add(&format!("ticks:{site}"), *sweeps);
                let bound = 4 * nodes + 16;
                if site.ends_with("sweep") && *sweeps > bound {
                    out.push(viol("sweeps-bounded", format!("too-many-sweeps:{site}"), format!("a re-run needed {sweeps} sweeps for {nodes} nodes (bound {bound})"), &feats));
                    return out;
                }
            }
            let pipeline_bound = 4 * nodes + 16;
            for (site, runs) in [("available-sweep", 3u64), ("liveness-sweep", 1)] {
                let t = o.ticks.get(site).copied().unwrap_or(0);
                // o.ticks also holds the second analysis (analyse_twice): twice the pipeline
                if t > 2 * runs * pipeline_bound {
                    out.push(viol("sweeps-bounded", format!("too-many-sweeps:{site}"), format!("the pipeline needed {t} {site}s (two analyses) for {nodes} nodes (bound {})", 2 * runs * pipeline_bound), &feats));
                    return out;
                }
            }
            // (3) analysing the same parsed program twice gives the same facts
            if let Some(s2) = &o.snapshot2 {
                stats.inc("analysed_twice");
                if let Some(d) = base.diff(s2) {
                    out.push(viol("same-program-twice", format!("second-analysis-differs:{}", Snap::diff_clause(&d)), format!("two analyses of the same parsed nodes on one thread: {d}"), &feats));
                    return out;
                }
                if let Some(d2) = &o.diags2 {
                    if *d2 != base_lints {
                        out.push(viol("same-program-twice", "second-analysis-differs:diagnostics".into(), "two analyses of the same parsed nodes give different lint items".into(), &feats));
                        return out;
                    }
                }
            }
            // (5) the facts satisfy the analyses' own equations on the finished graph: what a node
            // assumes on entry (a register or stack slot holding a constant or an original value)
            // holds on exit of every predecessor, and what is live after a node is what is live
            // before its successors. A sweep loop that stops early leaves facts that a further run
            // of the same loop reproduces faithfully, so (1) alone does not see it.
            let live: Vec<bool> = {
                let mut seen = vec![false; base.nodes.len()];
                let mut stack: Vec<usize> = base.nodes.iter().enumerate().filter(|(_, n)| n.is_prog_entry || n.is_func_entry).map(|(i, _)| i).collect();
                while let Some(i) = stack.pop() {
                    if std::mem::replace(&mut seen[i], true) {
                        continue;
                    }
                    stack.extend(base.nodes[i].nexts.iter().copied().filter(|t| *t != crate::snapshot::NONE));
                }
                seen
            };
            for (i, nd) in base.nodes.iter().enumerate() {
                for (fin, fout, what) in [(0usize, 1usize, "reg_values"), (2, 3, "memory_values")] {
                    for item in nd.facts[fin].split(';').filter(|x| x.contains("=Constant(") || x.contains("=OriginalRegisterWithScalar(")) {
                        for &p in &nd.prevs {
                            if p == crate::snapshot::NONE || base.nodes[p].facts[fout].split(';').any(|y| y == item) {
                                continue;
                            }
                            out.push(viol(
                                "facts-satisfy-the-equations",
                                format!("equation-violated:{what}_in-not-implied-by-predecessor"),
                                format!("node {i} `{}` ({}:{}) assumes {item} on entry, but its predecessor node {p} `{}` ({}:{}) leaves {} = [{}]", nd.text, nd.file, nd.line + 1, base.nodes[p].text, base.nodes[p].file, base.nodes[p].line + 1, crate::snapshot::FACT_NAMES[fout], base.nodes[p].facts[fout]),
                                &feats,
                            ));
                            return out;
                        }
                    }
                }
                // The other direction - a constant that every predecessor leaves is known on entry -
                // is precision, not correctness: the analyses may stop at a fixed point below the
                // greatest one (a loop started from a seed, a function entered by a jump). It is
                // counted as a probe, never reported.
                if live[i] && !nd.prevs.is_empty() && nd.prevs.iter().all(|p| *p != crate::snapshot::NONE) {
                    let first = &base.nodes[nd.prevs[0]].facts[1];
                    if first.split(';').filter(|x| x.contains("=Constant(")).any(|item| nd.prevs.iter().all(|&p| base.nodes[p].facts[1].split(';').any(|y| y == item)) && !nd.facts[0].split(';').any(|y| y == item)) {
                        stats.inc("probe:meet-of-predecessors-not-attained(precision only)");
                    }
                }
                // live_out[n] = union of live_in[s] over the successors
                let set = |t: &str| -> std::collections::BTreeSet<String> { t.trim_matches(|c| c == '[' || c == ']').split(", ").filter(|x| !x.is_empty()).map(str::to_string).collect() };
                let live_out = set(&nd.facts[5]);
                let mut want = std::collections::BTreeSet::new();
                for &t in &nd.nexts {
                    if t != crate::snapshot::NONE {
                        want.extend(set(&base.nodes[t].facts[4]));
                    }
                }
                if live_out != want {
                    out.push(viol(
                        "facts-satisfy-the-equations",
                        "equation-violated:live_out-is-not-the-union-of-successors-live_in".into(),
                        format!("node {i} `{}` ({}:{}): live_out = {:?}, union of live_in over its successors {:?} = {:?}", nd.text, nd.file, nd.line + 1, live_out, nd.nexts, want),
                        &feats,
                    ));
                    return out;
                }
                stats.inc("equations_checked_nodes");
            }
            if stats.samples.len() < 3 {
                stats.samples.push(serde_json::json!({
                    "files": scn.world.files.keys().collect::<Vec<_>>(), "nodes": nodes, "history": scn.history.iter().map(|o| op_name(*o)).collect::<Vec<_>>(),
                    "sweeps_per_extra_run": o.sweeps, "pipeline_ticks": o.ticks, "lint_items": base_lints.len(),
                }));
            }
            let has_loop = base.nodes.iter().enumerate().any(|(i, nd)| nd.nexts.iter().any(|&t| t != crate::snapshot::NONE && t <= i));
            if has_loop {
                stats.inc("probe:back_edge");
            }
            if base.funcs.len() > 1 {
                stats.inc("probe:several_functions");
            }
            if has_loop || !base.funcs.is_empty() {
                stats.nontrivial_worlds.insert(wh);
            }
        }
        snaps.push((e, base));
    }
    // (4) the same facts under every schedule
    if let Some((e0, s0)) = snaps.first() {
        for (e, s) in &snaps[1..] {
            if let Some(d) = s0.diff(s) {
                out.push(viol("same-facts-under-every-schedule", format!("schedule-dependent:{}", Snap::diff_clause(&d)), format!("entropy {e0} vs {e}: {d}"), &feats));
                return out;
            }
        }
    }
    out
}
