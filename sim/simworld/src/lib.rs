//! libsimworld.so — LD_PRELOAD world for the real `rva` process (DESIGN.md §2.2, §2.4).
//!
//! * `getrandom`: seeded from `VERIF_ENTROPY_SEED` (SplitMix64 stream). std's `RandomState` keys and,
//!   through the getrandom shim, `Uuid::new_v4` draw from it, so one process run = one replayable
//!   hash/UUID schedule.
//! * `open/open64/openat/openat64`, `read`, `close`, `realpath` for paths under `VERIF_SIM_ROOT`:
//!   counted, logged to `VERIF_SIM_LOG`, and failed / shortened / redirected as `VERIF_FAULT_PLAN`
//!   says. The process is single-threaded, so "the n-th open" is a well-defined instant.
//!
//! Plan grammar (entries separated by ';'):
//!   open:<n>:errno:<E>        n-th open under the root fails with errno E
//!   open:<n>:redirect:<path>  n-th open under the root opens <path> instead (TOCTOU)
//!   read:<n>:errno:<E>        n-th read on a tracked fd fails with errno E
//!   read:*:short:<k>          every read on a tracked fd returns at most k bytes
//!   read:*:eintr:<p>          every p-th read on a tracked fd first fails with EINTR
//!   realpath:<n>:errno:<E>    n-th realpath under the root fails with errno E
//!
//! Nothing here allocates through Rust after initialisation except the plan vector; logging uses
//! raw `write(2)`; no PRNG draw and no clock read happens on a logging path.
#![allow(clippy::missing_safety_doc)]

use libc::{c_char, c_int, c_uint, c_void, size_t, ssize_t};
use std::sync::atomic::{AtomicBool, AtomicU64, AtomicUsize, Ordering};

// ------------------------------------------------------------------------------------------------
// state

static INIT: AtomicBool = AtomicBool::new(false);
static IN_INIT: AtomicBool = AtomicBool::new(false);
static ENTROPY_ON: AtomicBool = AtomicBool::new(false);
static ENTROPY_STATE: AtomicU64 = AtomicU64::new(0);
static ENTROPY_CALLS: AtomicU64 = AtomicU64::new(0);

static OPEN_N: AtomicU64 = AtomicU64::new(0);
static READ_N: AtomicU64 = AtomicU64::new(0);
static REALPATH_N: AtomicU64 = AtomicU64::new(0);
static LOG_FD: AtomicUsize = AtomicUsize::new(usize::MAX);

const MAX_FD: usize = 4096;
static mut TRACKED: [bool; MAX_FD] = [false; MAX_FD];
static mut ROOT: [u8; 1024] = [0; 1024];
static mut ROOT_LEN: usize = 0;

#[derive(Clone)]
enum Act {
    OpenErrno(u64, c_int),
    OpenRedirect(u64, Vec<u8>),
    ReadErrno(u64, c_int),
    ReadShort(usize),
    ReadEintr(u64),
    RealpathErrno(u64, c_int),
}
static mut PLAN: Vec<Act> = Vec::new();

unsafe fn real(name: &[u8], slot: &AtomicUsize) -> usize {
    let p = slot.load(Ordering::Relaxed);
    if p != 0 {
        return p;
    }
    let f = libc::dlsym(libc::RTLD_NEXT, name.as_ptr() as *const c_char) as usize;
    slot.store(f, Ordering::Relaxed);
    f
}

unsafe fn getenv(name: &[u8]) -> Option<&'static [u8]> {
    let p = libc::getenv(name.as_ptr() as *const c_char);
    if p.is_null() {
        None
    } else {
        Some(std::slice::from_raw_parts(p as *const u8, libc::strlen(p)))
    }
}

fn parse_u64(b: &[u8]) -> Option<u64> {
    std::str::from_utf8(b).ok()?.trim().parse().ok()
}

unsafe fn init() {
    if INIT.load(Ordering::Acquire) {
        return;
    }
    if IN_INIT.swap(true, Ordering::AcqRel) {
        return;
    }
    if let Some(s) = getenv(b"VERIF_ENTROPY_SEED\0") {
        if let Some(v) = parse_u64(s) {
            ENTROPY_STATE.store(v, Ordering::Relaxed);
            ENTROPY_ON.store(true, Ordering::Relaxed);
        }
    }
    if let Some(r) = getenv(b"VERIF_SIM_ROOT\0") {
        let n = r.len().min(1023);
        let root = &mut *std::ptr::addr_of_mut!(ROOT);
        root[..n].copy_from_slice(&r[..n]);
        ROOT_LEN = n;
    }
    if let Some(p) = getenv(b"VERIF_FAULT_PLAN\0") {
        let plan = &mut *std::ptr::addr_of_mut!(PLAN);
        for ent in p.split(|c| *c == b';') {
            let f: Vec<&[u8]> = ent.splitn(4, |c| *c == b':').collect();
            if f.len() < 4 {
                continue;
            }
            let n = parse_u64(f[1]);
            let act = match (f[0], f[2]) {
                (b"open", b"errno") => n.zip(parse_u64(f[3])).map(|(n, e)| Act::OpenErrno(n, e as c_int)),
                (b"open", b"redirect") => n.map(|n| {
                    let mut v = f[3].to_vec();
                    v.push(0);
                    Act::OpenRedirect(n, v)
                }),
                (b"read", b"errno") => n.zip(parse_u64(f[3])).map(|(n, e)| Act::ReadErrno(n, e as c_int)),
                (b"read", b"short") => parse_u64(f[3]).map(|k| Act::ReadShort(k.max(1) as usize)),
                (b"read", b"eintr") => parse_u64(f[3]).map(|p| Act::ReadEintr(p.max(2))),
                (b"realpath", b"errno") => n.zip(parse_u64(f[3])).map(|(n, e)| Act::RealpathErrno(n, e as c_int)),
                _ => None,
            };
            if let Some(a) = act {
                plan.push(a);
            }
        }
    }
    if let Some(l) = getenv(b"VERIF_SIM_LOG\0") {
        let mut path = l.to_vec();
        path.push(0);
        static REAL_OPEN: AtomicUsize = AtomicUsize::new(0);
        let f = real(b"open64\0", &REAL_OPEN);
        if f != 0 {
            let f: extern "C" fn(*const c_char, c_int, c_uint) -> c_int = std::mem::transmute(f);
            let fd = f(
                path.as_ptr() as *const c_char,
                libc::O_WRONLY | libc::O_CREAT | libc::O_APPEND | libc::O_CLOEXEC,
                0o644,
            );
            if fd >= 0 {
                LOG_FD.store(fd as usize, Ordering::Relaxed);
            }
        }
    }
    INIT.store(true, Ordering::Release);
}

unsafe fn log(parts: &[&[u8]]) {
    let fd = LOG_FD.load(Ordering::Relaxed);
    if fd == usize::MAX {
        return;
    }
    let mut buf = [0u8; 1536];
    let mut n = 0;
    for p in parts {
        let k = p.len().min(buf.len() - 1 - n);
        buf[n..n + k].copy_from_slice(&p[..k]);
        n += k;
    }
    buf[n] = b'\n';
    n += 1;
    libc::write(fd as c_int, buf.as_ptr() as *const c_void, n);
}

fn fmt_num(v: i64, out: &mut [u8; 24]) -> &[u8] {
    let mut i = out.len();
    let neg = v < 0;
    let mut u = v.unsigned_abs();
    if u == 0 {
        i -= 1;
        out[i] = b'0';
    }
    while u > 0 {
        i -= 1;
        out[i] = b'0' + (u % 10) as u8;
        u /= 10;
    }
    if neg {
        i -= 1;
        out[i] = b'-';
    }
    &out[i..]
}

unsafe fn under_root(path: *const c_char) -> bool {
    if path.is_null() || ROOT_LEN == 0 {
        return false;
    }
    let p = std::slice::from_raw_parts(path as *const u8, libc::strlen(path));
    let root_all: &[u8; 1024] = &*std::ptr::addr_of!(ROOT);
    let root = &root_all[..ROOT_LEN];
    p.len() >= ROOT_LEN && &p[..ROOT_LEN] == root
}

unsafe fn set_errno(e: c_int) {
    *libc::__errno_location() = e;
}

unsafe fn track(fd: c_int, on: bool) {
    if fd >= 0 && (fd as usize) < MAX_FD {
        let t: &mut [bool; MAX_FD] = &mut *std::ptr::addr_of_mut!(TRACKED);
        t[fd as usize] = on;
    }
}
unsafe fn tracked(fd: c_int) -> bool {
    fd >= 0 && (fd as usize) < MAX_FD && {
        let t: &[bool; MAX_FD] = &*std::ptr::addr_of!(TRACKED);
        t[fd as usize]
    }
}

// ------------------------------------------------------------------------------------------------
// entropy

fn splitmix(state: &AtomicU64) -> u64 {
    let s = state.fetch_add(0x9E37_79B9_7F4A_7C15, Ordering::Relaxed).wrapping_add(0x9E37_79B9_7F4A_7C15);
    let mut z = s;
    z = (z ^ (z >> 30)).wrapping_mul(0xBF58_476D_1CE4_E5B9);
    z = (z ^ (z >> 27)).wrapping_mul(0x94D0_49BB_1331_11EB);
    z ^ (z >> 31)
}

#[no_mangle]
pub unsafe extern "C" fn getrandom(buf: *mut c_void, len: size_t, flags: c_uint) -> ssize_t {
    init();
    if !ENTROPY_ON.load(Ordering::Relaxed) {
        return libc::syscall(libc::SYS_getrandom, buf, len, flags) as ssize_t;
    }
    let n = ENTROPY_CALLS.fetch_add(1, Ordering::Relaxed) + 1;
    let (mut nb, mut lb) = ([0u8; 24], [0u8; 24]);
    log(&[b"getrandom ", fmt_num(n as i64, &mut nb), b" len ", fmt_num(len as i64, &mut lb), b" (seeded)"]);
    let out = std::slice::from_raw_parts_mut(buf as *mut u8, len);
    for chunk in out.chunks_mut(8) {
        let v = splitmix(&ENTROPY_STATE).to_le_bytes();
        chunk.copy_from_slice(&v[..chunk.len()]);
    }
    len as ssize_t
}

// ------------------------------------------------------------------------------------------------
// files

unsafe fn do_open(
    which: &[u8],
    slot: &AtomicUsize,
    dirfd: Option<c_int>,
    path: *const c_char,
    flags: c_int,
    mode: c_uint,
) -> c_int {
    init();
    let f = real(which, slot);
    let call = |p: *const c_char| -> c_int {
        match dirfd {
            Some(d) => {
                let f: extern "C" fn(c_int, *const c_char, c_int, c_uint) -> c_int = std::mem::transmute(f);
                f(d, p, flags, mode)
            }
            None => {
                let f: extern "C" fn(*const c_char, c_int, c_uint) -> c_int = std::mem::transmute(f);
                f(p, flags, mode)
            }
        }
    };
    if !INIT.load(Ordering::Acquire) || !under_root(path) {
        return call(path);
    }
    let n = OPEN_N.fetch_add(1, Ordering::Relaxed) + 1;
    let mut nb = [0u8; 24];
    let pbytes = std::slice::from_raw_parts(path as *const u8, libc::strlen(path));
    let plan = &*std::ptr::addr_of!(PLAN);
    for a in plan {
        match a {
            Act::OpenErrno(k, e) if *k == n => {
                let mut eb = [0u8; 24];
                log(&[b"open ", fmt_num(n as i64, &mut nb), b" ", pbytes, b" FAULT errno ", fmt_num(*e as i64, &mut eb)]);
                set_errno(*e);
                return -1;
            }
            Act::OpenRedirect(k, to) if *k == n => {
                let fd = call(to.as_ptr() as *const c_char);
                let mut fb = [0u8; 24];
                log(&[b"open ", fmt_num(n as i64, &mut nb), b" ", pbytes, b" FAULT redirect ", &to[..to.len() - 1], b" -> ", fmt_num(fd as i64, &mut fb)]);
                track(fd, true);
                return fd;
            }
            _ => {}
        }
    }
    let fd = call(path);
    let mut fb = [0u8; 24];
    log(&[b"open ", fmt_num(n as i64, &mut nb), b" ", pbytes, b" -> ", fmt_num(fd as i64, &mut fb)]);
    track(fd, true);
    fd
}

#[no_mangle]
pub unsafe extern "C" fn open64(path: *const c_char, flags: c_int, mode: c_uint) -> c_int {
    static SLOT: AtomicUsize = AtomicUsize::new(0);
    do_open(b"open64\0", &SLOT, None, path, flags, mode)
}
#[no_mangle]
pub unsafe extern "C" fn open(path: *const c_char, flags: c_int, mode: c_uint) -> c_int {
    static SLOT: AtomicUsize = AtomicUsize::new(0);
    do_open(b"open\0", &SLOT, None, path, flags, mode)
}
#[no_mangle]
pub unsafe extern "C" fn openat(dirfd: c_int, path: *const c_char, flags: c_int, mode: c_uint) -> c_int {
    static SLOT: AtomicUsize = AtomicUsize::new(0);
    do_open(b"openat\0", &SLOT, Some(dirfd), path, flags, mode)
}
#[no_mangle]
pub unsafe extern "C" fn openat64(dirfd: c_int, path: *const c_char, flags: c_int, mode: c_uint) -> c_int {
    static SLOT: AtomicUsize = AtomicUsize::new(0);
    do_open(b"openat64\0", &SLOT, Some(dirfd), path, flags, mode)
}

#[no_mangle]
pub unsafe extern "C" fn read(fd: c_int, buf: *mut c_void, count: size_t) -> ssize_t {
    static SLOT: AtomicUsize = AtomicUsize::new(0);
    let f = real(b"read\0", &SLOT);
    let f: extern "C" fn(c_int, *mut c_void, size_t) -> ssize_t = std::mem::transmute(f);
    if !INIT.load(Ordering::Acquire) || !tracked(fd) {
        return f(fd, buf, count);
    }
    let n = READ_N.fetch_add(1, Ordering::Relaxed) + 1;
    let mut nb = [0u8; 24];
    let mut count = count;
    let plan = &*std::ptr::addr_of!(PLAN);
    for a in plan {
        match a {
            Act::ReadErrno(k, e) if *k == n => {
                let mut eb = [0u8; 24];
                log(&[b"read ", fmt_num(n as i64, &mut nb), b" FAULT errno ", fmt_num(*e as i64, &mut eb)]);
                set_errno(*e);
                return -1;
            }
            Act::ReadEintr(p) if n % *p == 0 => {
                log(&[b"read ", fmt_num(n as i64, &mut nb), b" FAULT eintr"]);
                set_errno(libc::EINTR);
                return -1;
            }
            Act::ReadShort(k) if count > *k => {
                count = *k;
                log(&[b"read ", fmt_num(n as i64, &mut nb), b" FAULT short"]);
            }
            _ => {}
        }
    }
    let r = f(fd, buf, count);
    let mut rb = [0u8; 24];
    log(&[b"read ", fmt_num(n as i64, &mut nb), b" -> ", fmt_num(r as i64, &mut rb)]);
    r
}

#[no_mangle]
pub unsafe extern "C" fn close(fd: c_int) -> c_int {
    static SLOT: AtomicUsize = AtomicUsize::new(0);
    let f = real(b"close\0", &SLOT);
    let f: extern "C" fn(c_int) -> c_int = std::mem::transmute(f);
    if INIT.load(Ordering::Acquire) {
        if fd >= 0 && fd as usize == LOG_FD.load(Ordering::Relaxed) {
            return 0; // keep the log open
        }
        track(fd, false);
    }
    f(fd)
}

#[no_mangle]
pub unsafe extern "C" fn realpath(path: *const c_char, resolved: *mut c_char) -> *mut c_char {
    static SLOT: AtomicUsize = AtomicUsize::new(0);
    init();
    let f = real(b"realpath\0", &SLOT);
    let f: extern "C" fn(*const c_char, *mut c_char) -> *mut c_char = std::mem::transmute(f);
    if !INIT.load(Ordering::Acquire) || !under_root(path) {
        return f(path, resolved);
    }
    let n = REALPATH_N.fetch_add(1, Ordering::Relaxed) + 1;
    let mut nb = [0u8; 24];
    let pbytes = std::slice::from_raw_parts(path as *const u8, libc::strlen(path));
    let plan = &*std::ptr::addr_of!(PLAN);
    for a in plan {
        if let Act::RealpathErrno(k, e) = a {
            if *k == n {
                let mut eb = [0u8; 24];
                log(&[b"realpath ", fmt_num(n as i64, &mut nb), b" ", pbytes, b" FAULT errno ", fmt_num(*e as i64, &mut eb)]);
                set_errno(*e);
                return std::ptr::null_mut();
            }
        }
    }
    log(&[b"realpath ", fmt_num(n as i64, &mut nb), b" ", pbytes]);
    f(path, resolved)
}
