//! An implementation which calls out to an externally defined function.
use crate::{util::uninit_slice_fill_zero, Error};
use core::{mem::MaybeUninit, num::NonZeroU32};

/// Register a function to be invoked by `getrandom` on unsupported targets.
///
/// ## Writing a custom `getrandom` implementation
///
/// The function to register must have the same signature as
/// [`getrandom::getrandom`](crate::getrandom). The function can be defined
/// wherever you want, either in root crate or a dependent crate.
///
/// For example, if we wanted a `failure-getrandom` crate containing an
/// implementation that always fails, we would first depend on `getrandom`
/// (for the [`Error`] type) in `failure-getrandom/Cargo.toml`:
/// ```toml
/// [dependencies]
/// getrandom = "0.2"
/// ```
/// Note that the crate containing this function does **not** need to enable the
/// `"custom"` Cargo feature.
///
/// Next, in `failure-getrandom/src/lib.rs`, we define our function:
/// ```rust
/// use core::num::NonZeroU32;
/// use getrandom::Error;
///
/// // Some application-specific error code
/// const MY_CUSTOM_ERROR_CODE: u32 = Error::CUSTOM_START + 42;
/// pub fn always_fail(buf: &mut [u8]) -> Result<(), Error> {
///     let code = NonZeroU32::new(MY_CUSTOM_ERROR_CODE).unwrap();
///     Err(Error::from(code))
/// }
/// ```
///
/// ## Registering a custom `getrandom` implementation
///
/// Functions can only be registered in the root binary crate. Attempting to
/// register a function in a non-root crate will result in a linker error.
/// This is similar to
/// [`#[panic_handler]`](https://doc.rust-lang.org/nomicon/panic-handler.html) or
/// [`#[global_allocator]`](https://doc.rust-lang.org/edition-guide/rust-2018/platform-and-target-support/global-allocators.html),
/// where helper crates define handlers/allocators but only the binary crate
/// actually _uses_ the functionality.
///
/// To register the function, we first depend on `failure-getrandom` _and_
/// `getrandom` in `Cargo.toml`:
/// ```toml
/// [dependencies]
/// failure-getrandom = "0.1"
/// getrandom = { version = "0.2", features = ["custom"] }
/// ```
///
/// Then, we register the function in `src/main.rs`:
/// ```rust
/// # mod failure_getrandom { pub fn always_fail(_: &mut [u8]) -> Result<(), getrandom::Error> { unimplemented!() } }
/// use failure_getrandom::always_fail;
/// use getrandom::register_custom_getrandom;
///
/// register_custom_getrandom!(always_fail);
/// ```
///
/// Now any user of `getrandom` (direct or indirect) on this target will use the
/// registered function. As noted in the
/// [top-level documentation](index.html#custom-implementations) this
/// registration only has an effect on unsupported targets.
#[macro_export]
macro_rules! register_custom_getrandom {
    ($path:path) => {
        // TODO(MSRV 1.37): change to unnamed block
        const __GETRANDOM_INTERNAL: () = {
            // We use Rust ABI to be safe against potential panics in the passed function.
            #[no_mangle]
            unsafe fn __getrandom_custom(dest: *mut u8, len: usize) -> u32 {
                // Make sure the passed function has the type of getrandom::getrandom
                type F = fn(&mut [u8]) -> ::core::result::Result<(), $crate::Error>;
                let _: F = $crate::getrandom;
                let f: F = $path;
                let slice = ::core::slice::from_raw_parts_mut(dest, len);
                match f(slice) {
                    Ok(()) => 0,
                    Err(e) => e.code().get(),
                }
            }
        };
    };
}

#[allow(dead_code)]
pub fn getrandom_inner(dest: &mut [MaybeUninit<u8>]) -> Result<(), Error> {
    extern "Rust" {
        fn __getrandom_custom(dest: *mut u8, len: usize) -> u32;
    }
    // Previously we always passed a valid, initialized slice to
    // `__getrandom_custom`. Ensure `dest` has been initialized for backward
    // compatibility with implementations that rely on that (e.g. Rust
    // implementations that construct a `&mut [u8]` slice from `dest` and
    // `len`).
    let dest = uninit_slice_fill_zero(dest);
    let ret = unsafe { __getrandom_custom(dest.as_mut_ptr(), dest.len()) };
    match NonZeroU32::new(ret) {
        None => Ok(()),
        Some(code) => Err(Error::from(code)),
    }
}
