//! Implementation for iOS, tvOS, and watchOS where `getentropy` is unavailable.
use crate::Error;
use core::{ffi::c_void, mem::MaybeUninit};

// libsystem contains the libc of Darwin, and every binary ends up linked against it either way. This
// makes it a more lightweight choice compared to `Security.framework`.
extern "C" {
    // This RNG uses a thread-local CSPRNG to provide data, which is seeded by the operating system's root CSPRNG.
    // Its the best option after `getentropy` on modern Darwin-based platforms that also avoids the
    // high startup costs and linking of Security.framework.
    //
    // While its just an implementation detail, `Security.framework` just calls into this anyway.
    fn CCRandomGenerateBytes(bytes: *mut c_void, size: usize) -> i32;
}

pub fn getrandom_inner(dest: &mut [MaybeUninit<u8>]) -> Result<(), Error> {
    let ret = unsafe { CCRandomGenerateBytes(dest.as_mut_ptr() as *mut c_void, dest.len()) };
    // kCCSuccess (from CommonCryptoError.h) is always zero.
    if ret != 0 {
        Err(Error::IOS_SEC_RANDOM)
    } else {
        Ok(())
    }
}
