use core::sync::atomic::{AtomicUsize, Ordering::Relaxed};

// This structure represents a lazily initialized static usize value. Useful
// when it is preferable to just rerun initialization instead of locking.
// unsync_init will invoke an init() function until it succeeds, then return the
// cached value for future calls.
//
// unsync_init supports init() "failing". If the init() method returns UNINIT,
// that value will be returned as normal, but will not be cached.
//
// Users should only depend on the _value_ returned by init() functions.
// Specifically, for the following init() function:
//      fn init() -> usize {
//          a();
//          let v = b();
//          c();
//          v
//      }
// the effects of c() or writes to shared memory will not necessarily be
// observed and additional synchronization methods may be needed.
pub(crate) struct LazyUsize(AtomicUsize);

impl LazyUsize {
    pub const fn new() -> Self {
        Self(AtomicUsize::new(Self::UNINIT))
    }

    // The initialization is not completed.
    pub const UNINIT: usize = usize::max_value();

    // Runs the init() function at most once, returning the value of some run of
    // init(). Multiple callers can run their init() functions in parallel.
    // init() should always return the same value, if it succeeds.
    pub fn unsync_init(&self, init: impl FnOnce() -> usize) -> usize {
        // Relaxed ordering is fine, as we only have a single atomic variable.
        let mut val = self.0.load(Relaxed);
        if val == Self::UNINIT {
            val = init();
            self.0.store(val, Relaxed);
        }
        val
    }
}

// Identical to LazyUsize except with bool instead of usize.
pub(crate) struct LazyBool(LazyUsize);

impl LazyBool {
    pub const fn new() -> Self {
        Self(LazyUsize::new())
    }

    pub fn unsync_init(&self, init: impl FnOnce() -> bool) -> bool {
        self.0.unsync_init(|| init() as usize) != 0
    }
}
