use core::{fmt, num::NonZeroU32};

/// A small and `no_std` compatible error type
///
/// The [`Error::raw_os_error()`] will indicate if the error is from the OS, and
/// if so, which error code the OS gave the application. If such an error is
/// encountered, please consult with your system documentation.
///
/// Internally this type is a NonZeroU32, with certain values reserved for
/// certain purposes, see [`Error::INTERNAL_START`] and [`Error::CUSTOM_START`].
///
/// *If this crate's `"std"` Cargo feature is enabled*, then:
/// - [`getrandom::Error`][Error] implements
///   [`std::error::Error`](https://doc.rust-lang.org/std/error/trait.Error.html)
/// - [`std::io::Error`](https://doc.rust-lang.org/std/io/struct.Error.html) implements
///   [`From<getrandom::Error>`](https://doc.rust-lang.org/std/convert/trait.From.html).
#[derive(Copy, Clone, Eq, PartialEq)]
pub struct Error(NonZeroU32);

const fn internal_error(n: u16) -> Error {
    // SAFETY: code > 0 as INTERNAL_START > 0 and adding n won't overflow a u32.
    let code = Error::INTERNAL_START + (n as u32);
    Error(unsafe { NonZeroU32::new_unchecked(code) })
}

impl Error {
    /// This target/platform is not supported by `getrandom`.
    pub const UNSUPPORTED: Error = internal_error(0);
    /// The platform-specific `errno` returned a non-positive value.
    pub const ERRNO_NOT_POSITIVE: Error = internal_error(1);
    /// Encountered an unexpected situation which should not happen in practice.
    pub const UNEXPECTED: Error = internal_error(2);
    /// Call to [`CCRandomGenerateBytes`](https://opensource.apple.com/source/CommonCrypto/CommonCrypto-60074/include/CommonRandom.h.auto.html) failed
    /// on iOS, tvOS, or waatchOS.
    // TODO: Update this constant name in the next breaking release.
    pub const IOS_SEC_RANDOM: Error = internal_error(3);
    /// Call to Windows [`RtlGenRandom`](https://docs.microsoft.com/en-us/windows/win32/api/ntsecapi/nf-ntsecapi-rtlgenrandom) failed.
    pub const WINDOWS_RTL_GEN_RANDOM: Error = internal_error(4);
    /// RDRAND instruction failed due to a hardware issue.
    pub const FAILED_RDRAND: Error = internal_error(5);
    /// RDRAND instruction unsupported on this target.
    pub const NO_RDRAND: Error = internal_error(6);
    /// The environment does not support the Web Crypto API.
    pub const WEB_CRYPTO: Error = internal_error(7);
    /// Calling Web Crypto API `crypto.getRandomValues` failed.
    pub const WEB_GET_RANDOM_VALUES: Error = internal_error(8);
    /// On VxWorks, call to `randSecure` failed (random number generator is not yet initialized).
    pub const VXWORKS_RAND_SECURE: Error = internal_error(11);
    /// Node.js does not have the `crypto` CommonJS module.
    pub const NODE_CRYPTO: Error = internal_error(12);
    /// Calling Node.js function `crypto.randomFillSync` failed.
    pub const NODE_RANDOM_FILL_SYNC: Error = internal_error(13);
    /// Called from an ES module on Node.js. This is unsupported, see:
    /// <https://docs.rs/getrandom#nodejs-es-module-support>.
    pub const NODE_ES_MODULE: Error = internal_error(14);

    /// Codes below this point represent OS Errors (i.e. positive i32 values).
    /// Codes at or above this point, but below [`Error::CUSTOM_START`] are
    /// reserved for use by the `rand` and `getrandom` crates.
    pub const INTERNAL_START: u32 = 1 << 31;

    /// Codes at or above this point can be used by users to define their own
    /// custom errors.
    pub const CUSTOM_START: u32 = (1 << 31) + (1 << 30);

    /// Extract the raw OS error code (if this error came from the OS)
    ///
    /// This method is identical to [`std::io::Error::raw_os_error()`][1], except
    /// that it works in `no_std` contexts. If this method returns `None`, the
    /// error value can still be formatted via the `Display` implementation.
    ///
    /// [1]: https://doc.rust-lang.org/std/io/struct.Error.html#method.raw_os_error
    #[inline]
    pub fn raw_os_error(self) -> Option<i32> {
        if self.0.get() < Self::INTERNAL_START {
            match () {
                #[cfg(target_os = "solid_asp3")]
                // On SOLID, negate the error code again to obtain the original
                // error code.
                () => Some(-(self.0.get() as i32)),
                #[cfg(not(target_os = "solid_asp3"))]
                () => Some(self.0.get() as i32),
            }
        } else {
            None
        }
    }

    /// Extract the bare error code.
    ///
    /// This code can either come from the underlying OS, or be a custom error.
    /// Use [`Error::raw_os_error()`] to disambiguate.
    #[inline]
    pub const fn code(self) -> NonZeroU32 {
        self.0
    }
}

cfg_if! {
    if #[cfg(unix)] {
        fn os_err(errno: i32, buf: &mut [u8]) -> Option<&str> {
            let buf_ptr = buf.as_mut_ptr() as *mut libc::c_char;
            if unsafe { libc::strerror_r(errno, buf_ptr, buf.len()) } != 0 {
                return None;
            }

            // Take up to trailing null byte
            let n = buf.len();
            let idx = buf.iter().position(|&b| b == 0).unwrap_or(n);
            core::str::from_utf8(&buf[..idx]).ok()
        }
    } else {
        fn os_err(_errno: i32, _buf: &mut [u8]) -> Option<&str> {
            None
        }
    }
}

impl fmt::Debug for Error {
    fn fmt(&self, f: &mut fmt::Formatter<'_>) -> fmt::Result {
        let mut dbg = f.debug_struct("Error");
        if let Some(errno) = self.raw_os_error() {
            dbg.field("os_error", &errno);
            let mut buf = [0u8; 128];
            if let Some(err) = os_err(errno, &mut buf) {
                dbg.field("description", &err);
            }
        } else if let Some(desc) = internal_desc(*self) {
            dbg.field("internal_code", &self.0.get());
            dbg.field("description", &desc);
        } else {
            dbg.field("unknown_code", &self.0.get());
        }
        dbg.finish()
    }
}

impl fmt::Display for Error {
    fn fmt(&self, f: &mut fmt::Formatter<'_>) -> fmt::Result {
        if let Some(errno) = self.raw_os_error() {
            let mut buf = [0u8; 128];
            match os_err(errno, &mut buf) {
                Some(err) => err.fmt(f),
                None => write!(f, "OS Error: {}", errno),
            }
        } else if let Some(desc) = internal_desc(*self) {
            f.write_str(desc)
        } else {
            write!(f, "Unknown Error: {}", self.0.get())
        }
    }
}

impl From<NonZeroU32> for Error {
    fn from(code: NonZeroU32) -> Self {
        Self(code)
    }
}

fn internal_desc(error: Error) -> Option<&'static str> {
    match error {
        Error::UNSUPPORTED => Some("getrandom: this target is not supported"),
        Error::ERRNO_NOT_POSITIVE => Some("errno: did not return a positive value"),
        Error::UNEXPECTED => Some("unexpected situation"),
        Error::IOS_SEC_RANDOM => Some("SecRandomCopyBytes: iOS Security framework failure"),
        Error::WINDOWS_RTL_GEN_RANDOM => Some("RtlGenRandom: Windows system function failure"),
        Error::FAILED_RDRAND => Some("RDRAND: failed multiple times: CPU issue likely"),
        Error::NO_RDRAND => Some("RDRAND: instruction not supported"),
        Error::WEB_CRYPTO => Some("Web Crypto API is unavailable"),
        Error::WEB_GET_RANDOM_VALUES => Some("Calling Web API crypto.getRandomValues failed"),
        Error::VXWORKS_RAND_SECURE => Some("randSecure: VxWorks RNG module is not initialized"),
        Error::NODE_CRYPTO => Some("Node.js crypto CommonJS module is unavailable"),
        Error::NODE_RANDOM_FILL_SYNC => Some("Calling Node.js API crypto.randomFillSync failed"),
        Error::NODE_ES_MODULE => Some("Node.js ES modules are not directly supported, see https://docs.rs/getrandom#nodejs-es-module-support"),
        _ => None,
    }
}

#[cfg(test)]
mod tests {
    use super::Error;
    use core::mem::size_of;

    #[test]
    fn test_size() {
        assert_eq!(size_of::<Error>(), 4);
        assert_eq!(size_of::<Result<(), Error>>(), 4);
    }
}
