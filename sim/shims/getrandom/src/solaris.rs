//! Solaris implementation using getrandom(2).
//!
//! While getrandom(2) has been available since Solaris 11.3, it has a few
//! quirks not present on other OSes. First, on Solaris 11.3, calls will always
//! fail if bufsz > 1024. Second, it will always either fail or completely fill
//! the buffer (returning bufsz). Third, error is indicated by returning 0,
//! rather than by returning -1. Finally, "if GRND_RANDOM is not specified
//! then getrandom(2) is always a non blocking call". This _might_ imply that
//! in early-boot scenarios with low entropy, getrandom(2) will not properly
//! block. To be safe, we set GRND_RANDOM, mirroring the man page examples.
//!
//! For more information, see the man page linked in lib.rs and this blog post:
//! https://blogs.oracle.com/solaris/post/solaris-new-system-calls-getentropy2-and-getrandom2
//! which also explains why this crate should not use getentropy(2).
use crate::{util_libc::last_os_error, Error};
use core::mem::MaybeUninit;

const MAX_BYTES: usize = 1024;

pub fn getrandom_inner(dest: &mut [MaybeUninit<u8>]) -> Result<(), Error> {
    for chunk in dest.chunks_mut(MAX_BYTES) {
        let ptr = chunk.as_mut_ptr() as *mut libc::c_void;
        let ret = unsafe { libc::getrandom(ptr, chunk.len(), libc::GRND_RANDOM) };
        // In case the man page has a typo, we also check for negative ret.
        if ret <= 0 {
            return Err(last_os_error());
        }
        // If getrandom(2) succeeds, it should have completely filled chunk.
        if (ret as usize) != chunk.len() {
            return Err(Error::UNEXPECTED);
        }
    }
    Ok(())
}
