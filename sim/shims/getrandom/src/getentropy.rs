//! Implementation using getentropy(2)
//!
//! Available since:
//!   - macOS 10.12
//!   - OpenBSD 5.6
//!   - Emscripten 2.0.5
//!   - vita newlib since Dec 2021
//!
//! For these targets, we use getentropy(2) because getrandom(2) doesn't exist.
use crate::{util_libc::last_os_error, Error};
use core::mem::MaybeUninit;

pub fn getrandom_inner(dest: &mut [MaybeUninit<u8>]) -> Result<(), Error> {
    for chunk in dest.chunks_mut(256) {
        let ret = unsafe { libc::getentropy(chunk.as_mut_ptr() as *mut libc::c_void, chunk.len()) };
        if ret != 0 {
            return Err(last_os_error());
        }
    }
    Ok(())
}
