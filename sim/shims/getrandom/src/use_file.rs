//! Implementations that just need to read from a file
use crate::{
    util_libc::{open_readonly, sys_fill_exact},
    Error,
};
use core::{
    cell::UnsafeCell,
    mem::MaybeUninit,
    sync::atomic::{AtomicUsize, Ordering::Relaxed},
};

/// For all platforms, we use `/dev/urandom` rather than `/dev/random`.
/// For more information see the linked man pages in lib.rs.
///   - On Linux, "/dev/urandom is preferred and sufficient in all use cases".
///   - On Redox, only /dev/urandom is provided.
///   - On AIX, /dev/urandom will "provide cryptographically secure output".
///   - On Haiku and QNX Neutrino they are identical.
const FILE_PATH: &str = "/dev/urandom\0";
const FD_UNINIT: usize = usize::max_value();

pub fn getrandom_inner(dest: &mut [MaybeUninit<u8>]) -> Result<(), Error> {
    let fd = get_rng_fd()?;
    sys_fill_exact(dest, |buf| unsafe {
        libc::read(fd, buf.as_mut_ptr() as *mut libc::c_void, buf.len())
    })
}

// Returns the file descriptor for the device file used to retrieve random
// bytes. The file will be opened exactly once. All subsequent calls will
// return the same file descriptor. This file descriptor is never closed.
fn get_rng_fd() -> Result<libc::c_int, Error> {
    static FD: AtomicUsize = AtomicUsize::new(FD_UNINIT);
    fn get_fd() -> Option<libc::c_int> {
        match FD.load(Relaxed) {
            FD_UNINIT => None,
            val => Some(val as libc::c_int),
        }
    }

    // Use double-checked locking to avoid acquiring the lock if possible.
    if let Some(fd) = get_fd() {
        return Ok(fd);
    }

    // SAFETY: We use the mutex only in this method, and we always unlock it
    // before returning, making sure we don't violate the pthread_mutex_t API.
    static MUTEX: Mutex = Mutex::new();
    unsafe { MUTEX.lock() };
    let _guard = DropGuard(|| unsafe { MUTEX.unlock() });

    if let Some(fd) = get_fd() {
        return Ok(fd);
    }

    // On Linux, /dev/urandom might return insecure values.
    #[cfg(any(target_os = "android", target_os = "linux"))]
    wait_until_rng_ready()?;

    let fd = unsafe { open_readonly(FILE_PATH)? };
    // The fd always fits in a usize without conflicting with FD_UNINIT.
    debug_assert!(fd >= 0 && (fd as usize) < FD_UNINIT);
    FD.store(fd as usize, Relaxed);

    Ok(fd)
}

// Succeeds once /dev/urandom is safe to read from
#[cfg(any(target_os = "android", target_os = "linux"))]
fn wait_until_rng_ready() -> Result<(), Error> {
    // Poll /dev/random to make sure it is ok to read from /dev/urandom.
    let fd = unsafe { open_readonly("/dev/random\0")? };
    let mut pfd = libc::pollfd {
        fd,
        events: libc::POLLIN,
        revents: 0,
    };
    let _guard = DropGuard(|| unsafe {
        libc::close(fd);
    });

    loop {
        // A negative timeout means an infinite timeout.
        let res = unsafe { libc::poll(&mut pfd, 1, -1) };
        if res >= 0 {
            debug_assert_eq!(res, 1); // We only used one fd, and cannot timeout.
            return Ok(());
        }
        let err = crate::util_libc::last_os_error();
        match err.raw_os_error() {
            Some(libc::EINTR) | Some(libc::EAGAIN) => continue,
            _ => return Err(err),
        }
    }
}

struct Mutex(UnsafeCell<libc::pthread_mutex_t>);

impl Mutex {
    const fn new() -> Self {
        Self(UnsafeCell::new(libc::PTHREAD_MUTEX_INITIALIZER))
    }
    unsafe fn lock(&self) {
        let r = libc::pthread_mutex_lock(self.0.get());
        debug_assert_eq!(r, 0);
    }
    unsafe fn unlock(&self) {
        let r = libc::pthread_mutex_unlock(self.0.get());
        debug_assert_eq!(r, 0);
    }
}

unsafe impl Sync for Mutex {}

struct DropGuard<F: FnMut()>(F);

impl<F: FnMut()> Drop for DropGuard<F> {
    fn drop(&mut self) {
        self.0()
    }
}
