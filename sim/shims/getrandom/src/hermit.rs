//! Implementation for Hermit
use crate::Error;
use core::{mem::MaybeUninit, num::NonZeroU32};

/// Minimum return value which we should get from syscalls in practice,
/// because Hermit uses positive `i32`s for error codes:
/// https://github.com/hermitcore/libhermit-rs/blob/main/src/errno.rs
const MIN_RET_CODE: isize = -(i32::MAX as isize);

extern "C" {
    fn sys_read_entropy(buffer: *mut u8, length: usize, flags: u32) -> isize;
}

pub fn getrandom_inner(mut dest: &mut [MaybeUninit<u8>]) -> Result<(), Error> {
    while !dest.is_empty() {
        let res = unsafe { sys_read_entropy(dest.as_mut_ptr() as *mut u8, dest.len(), 0) };
        // Positive `isize`s can be safely casted to `usize`
        if res > 0 && (res as usize) <= dest.len() {
            dest = &mut dest[res as usize..];
        } else {
            let err = match res {
                MIN_RET_CODE..=-1 => NonZeroU32::new(-res as u32).unwrap().into(),
                _ => Error::UNEXPECTED,
            };
            return Err(err);
        }
    }
    Ok(())
}
