//! Implementation for ESP-IDF
use crate::Error;
use core::{ffi::c_void, mem::MaybeUninit};

extern "C" {
    fn esp_fill_random(buf: *mut c_void, len: usize) -> u32;
}

pub fn getrandom_inner(dest: &mut [MaybeUninit<u8>]) -> Result<(), Error> {
    // Not that NOT enabling WiFi, BT, or the voltage noise entropy source (via `bootloader_random_enable`)
    // will cause ESP-IDF to return pseudo-random numbers based on the voltage noise entropy, after the initial boot process:
    // https://docs.espressif.com/projects/esp-idf/en/latest/esp32/api-reference/system/random.html
    //
    // However tracking if some of these entropy sources is enabled is way too difficult to implement here
    unsafe { esp_fill_random(dest.as_mut_ptr().cast(), dest.len()) };

    Ok(())
}
