//! Implementation for VxWorks
use crate::{util_libc::last_os_error, Error};
use core::{
    mem::MaybeUninit,
    sync::atomic::{AtomicBool, Ordering::Relaxed},
};

pub fn getrandom_inner(dest: &mut [MaybeUninit<u8>]) -> Result<(), Error> {
    static RNG_INIT: AtomicBool = AtomicBool::new(false);
    while !RNG_INIT.load(Relaxed) {
        let ret = unsafe { libc::randSecure() };
        if ret < 0 {
            return Err(Error::VXWORKS_RAND_SECURE);
        } else if ret > 0 {
            RNG_INIT.store(true, Relaxed);
            break;
        }
        unsafe { libc::usleep(10) };
    }

    // Prevent overflow of i32
    for chunk in dest.chunks_mut(i32::max_value() as usize) {
        let ret = unsafe { libc::randABytes(chunk.as_mut_ptr() as *mut u8, chunk.len() as i32) };
        if ret != 0 {
            return Err(last_os_error());
        }
    }
    Ok(())
}
