//! Implementation for WASI
use crate::Error;
use core::{
    mem::MaybeUninit,
    num::{NonZeroU16, NonZeroU32},
};
use wasi::random_get;

pub fn getrandom_inner(dest: &mut [MaybeUninit<u8>]) -> Result<(), Error> {
    unsafe { random_get(dest.as_mut_ptr() as *mut u8, dest.len()) }.map_err(|e| {
        // The WASI errno will always be non-zero, but we check just in case.
        match NonZeroU16::new(e.raw()) {
            Some(r) => Error::from(NonZeroU32::from(r)),
            None => Error::ERRNO_NOT_POSITIVE,
        }
    })
}
