//! Implementation for SOLID
use crate::Error;
use core::{mem::MaybeUninit, num::NonZeroU32};

extern "C" {
    pub fn SOLID_RNG_SampleRandomBytes(buffer: *mut u8, length: usize) -> i32;
}

pub fn getrandom_inner(dest: &mut [MaybeUninit<u8>]) -> Result<(), Error> {
    let ret = unsafe { SOLID_RNG_SampleRandomBytes(dest.as_mut_ptr() as *mut u8, dest.len()) };
    if ret >= 0 {
        Ok(())
    } else {
        // ITRON error numbers are always negative, so we negate it so that it
        // falls in the dedicated OS error range (1..INTERNAL_START).
        Err(NonZeroU32::new((-ret) as u32).unwrap().into())
    }
}
